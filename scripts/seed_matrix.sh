#!/bin/bash
# scripts/seed_matrix.sh [seed-dir-glob] — for every kept seeded change: apply it to the repository copy,
# run ALL registered quick checks, undo, and print which checks flagged it. Uses $VERIF_REPO (default /repo).
set -u
cd "$(dirname "$0")/.."
REPO="${VERIF_REPO:-/repo}"; export VERIF_REPO="$REPO"
pat="${1:-seeded/*}"
[ -z "$(git -C "$REPO" status --porcelain)" ] || { echo "$REPO is not clean"; exit 2; }
ids=$(python3 -c "import json;print(' '.join(c['property_id'] for c in json.load(open('MANIFEST.json'))['checks']))")
bin/vcheck __build__ >/dev/null 2>&1
mkdir -p .work/matrix
count=0
for d in $pat; do
  [ -f "$d/patch.diff" ] || continue
  [ -n "${SEED_FROM:-}" ] && [[ "$(basename "$d")" < "$SEED_FROM" ]] && continue
  # every mutated tree leaves its own compiled packages and linked binaries in the Go build cache: drop what has not
  # been used for three hours (the disk is finite)
  count=$((count+1)); [ $((count % 10)) -eq 0 ] && find "${GOCACHE:-$HOME/.cache/go-build}" -type f -mmin +180 -delete 2>/dev/null
  n=$(basename "$d")
  if ! git -C "$REPO" apply "$(realpath "$d/patch.diff")" 2>/dev/null; then
    if ! git -C "$REPO" apply -3 "$(realpath "$d/patch.diff")" 2>/dev/null; then echo "$n: PATCH DOES NOT APPLY"; git -C "$REPO" reset -q --hard HEAD; continue; fi
  fi
  bin/vcheck __build__ >/dev/null 2>&1
  echo $ids | tr ' ' '\n' | xargs -P 12 -I{} bash -c 'bin/vcheck {} > .work/matrix/'"$n"'.{}.log 2>&1; echo "{}=$?" ' | sort | tr '\n' ' ' > .work/matrix/$n.rcs
  git -C "$REPO" reset -q --hard HEAD
  caught=$(tr ' ' '\n' < .work/matrix/$n.rcs | grep "=1" | cut -d= -f1 | tr '\n' ' ')
  inc=$(tr ' ' '\n' < .work/matrix/$n.rcs | grep "=2" | cut -d= -f1 | tr '\n' ' ')
  echo "$n: caught_by=[ $caught] inconclusive=[ $inc]"
done
