#!/bin/bash
# scripts/run_all.sh [quick|thorough] [seed] [parallelism]  — runs every registered check, prints one line each.
tier="${1:-quick}"; seed="${2:-1}"; par="${3:-6}"
cd "$(dirname "$0")/.."
mkdir -p .work/logs
python3 - "$tier" <<'PY' > .work/cmds.txt
import json,sys
m=json.load(open('MANIFEST.json'))
for c in m['checks']:
    print(c['property_id'], c['quick_cmd'] if sys.argv[1]=='quick' else c.get('thorough_cmd',c['quick_cmd']))
PY
bin/vcheck __build__ >/dev/null 2>&1
export VERIF_SEED="$seed"
cat .work/cmds.txt | xargs -P "$par" -L 1 bash -c 'id=$0; shift 0; start=$(date +%s); "$@" > .work/logs/$id.'"$tier"'.log 2>&1; rc=$?; echo "$id rc=$rc $(( $(date +%s)-start ))s $(grep -c "^VIOLATION" .work/logs/$id.'"$tier"'.log) violations $(grep -c "^KNOWN-FINDING" .work/logs/$id.'"$tier"'.log) known"'
