#!/bin/bash
# scripts/try_seed.sh <patch.diff> <check-id>... — apply a seeded change to /repo, run the given quick checks, undo.
set -u
patch="$(realpath "$1")"; shift
cd "$(dirname "$0")/.."
if [ -n "$(git -C /repo status --porcelain)" ]; then echo "/repo is not clean"; exit 2; fi
git -C /repo apply "$patch" || { echo "patch does not apply"; exit 2; }
# evidence written while /repo carries a seeded change must never end up committed: keep the files and put them back
evsave=$(mktemp -d); cp -a evidence/. "$evsave"/ 2>/dev/null
trap 'git -C /repo checkout -- . ; git -C /repo clean -fdq -- x >/dev/null 2>&1; cp -a "$evsave"/. evidence/ 2>/dev/null; rm -rf "$evsave"' EXIT
tier="${VERIF_TIER:-quick}"
for id in "$@"; do
  start=$(date +%s)
  out=$(bin/vcheck "$id" --tier "$tier" 2>&1); rc=$?
  v=$(echo "$out" | grep -c "^VIOLATION")
  first=$(echo "$out" | grep -m1 "detail:" | cut -c1-300)
  echo "$id rc=$rc violations=$v $(( $(date +%s)-start ))s $first"
done
