#!/usr/bin/env python3
"""scripts/mk_seed_prompts.py <round-dir> <L1> <L2> [ids...] — write one bug-seeder prompt per property.
The prompt contains only the property text, the location of the seeder's scratch worktree and one-line summaries of the
changes earlier seeders produced for that property (so that a new round looks elsewhere). Nothing from /verif's checks."""
import json, sys, os, glob
args = [a for a in sys.argv[1:] if a != '--no-history']
no_history = '--no-history' in sys.argv   # a fresh, unconstrained sample: the seeder is told nothing about earlier changes
base, L1, L2 = args[0], args[1], args[2]
only = set(args[3:])
root = os.path.dirname(os.path.dirname(os.path.abspath(__file__)))
props = [json.loads(l) for l in open(os.path.join(root, 'properties.jsonl'))]
for p in props:
    pid = p['id']
    if only and pid not in only:
        continue
    prev = []
    for m in ([] if no_history else sorted(glob.glob(os.path.join(root, 'seeded', pid + '-*', 'meta.json')))):
        prev.append('  - ' + json.load(open(m))['summary'][:330])
    wt = f'{base}/{pid}'
    history = ('Think about what a maintainer would plausibly get wrong in a refactor, a performance optimisation, a "harmless" clean-up, an error-handling change, or a copy-paste from a sibling handler. Every clause of the statement is fair game.' if no_history else
               'Other seeders have ALREADY produced the following changes for this property. Do not repeat them or close variants of them. Look for DIFFERENT mechanisms and code sites; think about what a maintainer would plausibly get wrong in a refactor, a performance optimisation, a "harmless" clean-up, a new feature flag, an error-handling change, a change of iteration order or of a data structure, or a copy-paste from a sibling handler. Every clause of the statement is fair game, including the less obvious ones:\n' + chr(10).join(prev))
    txt = f"""You are helping test a verification effort for the Go repository initia-labs/OPinit (Cosmos SDK modules: x/ophost on L1, x/opchild on L2, an optimistic-rollup bridge). Your job is to act as a "bug seeder": produce realistic code changes that BREAK one stated semantic property of the code while still compiling and passing the repository's existing unit tests.

Your private scratch copy of the repository is a git worktree at: {wt}
Work ONLY inside that directory (and /tmp). Never touch /repo or /verif, never read anything under /verif.

The property you must break:
-----
{pid}: {p['title']}

Statement: {p['statement']}

Must hold: {p['quantifier']['text']}

{history}

-----

What to produce: up to TWO different, independent changes (call them {L1} and {L2}), each of which:
  1. is a small, realistic modification to non-test Go source under x/ (the kind of slip a maintainer could make: an off-by-one, a dropped or weakened check, a wrong key, a reordered statement, a wrong comparison, a missing rollback, an early return, state kept in the wrong place, ...);
  2. still compiles, and the existing test suite still passes with it: run, inside the worktree,
        export GOFLAGS=-mod=mod GOPROXY=off GOSUMDB=off GOTOOLCHAIN=local GOWORK=off
        go build ./... && go test -count=1 ./x/...
     (there is no network; everything needed is in the module cache);
  3. genuinely violates the property above in some execution;
  4. needs something SPECIFIC to manifest - a particular interleaving or order of operations, a multi-step sequence, a boundary or unusual input, a fault at a particular point, or two cooperating sites that each look fine alone - not something that ordinary use or any single obvious call would expose at once. Prefer subtle over blatant. {L1} and {L2} should touch different mechanisms.
  5. comes with a demonstration: a NEW Go test file (put it next to the package's existing tests, e.g. x/ophost/keeper/seed_{L1.lower()}_test.go, reusing that package's existing test helpers such as createDefaultTestInput) that FAILS with your change applied and PASSES on the unmodified code. Verify both directions yourself (save your change with `git diff > /tmp/<unique>.diff`, `git checkout -- <file>` to compare, `git apply` it back; never `git stash`).

Deliverables (create the directory {wt}/.seed/ and write):
  - .seed/{L1}.patch.diff   : `git diff` of the source change only (no test files), applicable with `git apply` from the repository root on the unmodified tree
  - .seed/{L1}_demo_test.go : the demonstration test file, with a first-line comment stating the path where it must be placed (e.g. // place at: x/opchild/keeper/seed_{L1.lower()}_test.go) and how to run it (go test -run TestName ./x/...)
  - .seed/{L1}.meta.json    : {{"property": "{pid}", "summary": "...what was changed...", "needs_to_manifest": "...the specific sequence/input/fault needed...", "demo_test": "<regex matching exactly your test function name(s), e.g. TestSeed{L1}_Foo|TestSeed{L1}_Bar>", "demo_path": "<path>", "verified": {{"builds": true, "existing_tests_pass": true, "demo_fails_with_change": true, "demo_passes_without_change": true}}}}
  - the same three files for {L2} if you produce a second one.
IMPORTANT: do NOT use `git stash` (the stash is shared between worktrees of this repository and other people work in sibling worktrees); to compare with/without your change use `git diff > /tmp/<unique>.diff; git checkout -- <file>; ...; git apply /tmp/<unique>.diff`.

Before you finish, restore the worktree's tracked source files to the unmodified state (git checkout -- . ; remove your test files from x/), so that only .seed/ remains as untracked content.

Constraints: do not modify existing test files, go.mod or generated *.pb.go files. Do not change proto definitions. Keep each patch under ~30 changed lines. Report briefly what you produced and the verification results you observed. If you cannot find a change satisfying all of the above for {L2}, deliver only {L1}.
"""
    os.makedirs(base, exist_ok=True)
    open(f'{base}/{pid}.prompt.txt', 'w').write(txt)
    print('wrote', f'{base}/{pid}.prompt.txt', len(prev), 'earlier changes listed')
