#!/bin/bash
# scripts/keep_seed.sh <Cxx> <A|B> — confirm an independently produced change and keep it under /verif/seeded/<Cxx>-<L>/
set -u
id="$1"; L="$2"; base="${3:-/tmp/seed}"; src="$base/$id/.seed"
cd "$(dirname "$0")/.."
out=$(scripts/confirm_seed.sh "$src" "$L" 2>&1); rc=$?
echo "$id-$L: $out"
[ $rc -eq 0 ] || exit 1
dst="seeded/$id-$L"; mkdir -p "$dst"
cp "$src/$L.patch.diff" "$dst/patch.diff"
cp "$src/${L}_demo_test.go" "$dst/demo_test.go"
python3 - "$src/$L.meta.json" "$dst/meta.json" "$id" <<'PY'
import json,sys
m=json.load(open(sys.argv[1]))
m["breaks_property"]=sys.argv[3]
m["confirmed_by"]="scripts/confirm_seed.sh in a scratch worktree of /repo HEAD: go build ./...; go test ./x/... (existing suite passes with the change); demo test fails with the change and passes without it"
json.dump(m,open(sys.argv[2],"w"),indent=1)
PY
