#!/usr/bin/env python3
"""Generates /verif/MANIFEST.json from the table below (single source of truth)."""
import json, os
V = os.path.dirname(os.path.dirname(os.path.abspath(__file__)))
ALL = ["C%02d" % i for i in range(1, 21)]
TB = "Trusted base: the harness's baseapp-equivalent delivery (branch, run, write on success, recover panics), the cosmos-sdk bank/auth keepers, and the independent ref implementation; rollback of rejected messages is never counted as evidence."
CHECKS = {
 "C01": dict(level="exploration", design="§3 C01",
   text="Conservation ledger + isolation monitor evaluated after every message of seeded random multi-bridge histories over the real ophost handlers (all message types, valid and invalid, third-party sends, forged and cross-bridge claims): escrow == ledger for every id, exact per-account balance deltas, unchanged supply, byte-identical views and raw-key attribution for all other bridges. Held on the executions listed in the evidence.",
   note=TB, technique="runtime reference-model monitor (conservation ledger, per-bridge view isolation) over random histories"),
 "C02": dict(level="exploration", design="§3 C02",
   text="Exactly-once monitor (paid counter per withdrawal identity, recipient balance = sum of paid amounts, Claimed query agreement incl. other bridge ids) over a memoised bounded-exhaustive DFS on copy-on-write branches (3 leaves, 4 overlapping tree variants, <=3 live outputs, propose/delete/advance/finalize) and over long random histories with re-included leaves, deletions and re-proposals.",
   note=TB, technique="runtime exactly-once monitor over bounded-exhaustive DFS + random histories"),
 "C03": dict(level="exploration", design="§3 C03",
   text="Soundness oracle: every accepted finalization is re-verified with an independent implementation against the output stored at the named index; a perturbation engine submits, for every tree size/shape/position, each single-field mutation (every bit position of roots and proof elements, arithmetic on sequence/amount, foreign bridge/output, swapped and concatenated addresses, structural proof edits) and random multi-field mixes in three oracle states, with the unperturbed claim as positive control.",
   note=TB+" Hash collisions are not searched for.", technique="runtime soundness oracle + exhaustive single-field perturbation with positive controls"),
 "C05": dict(level="exploration", design="§3 C05",
   text="Timeline monitor with a three-valued finality model in exact nanoseconds: a deterministic lattice drives an output of every accepted period to block times exactly at and one tick around T0+P and probes finalize/delete/query on branches; random timelines add propose/delete/re-propose/role interleavings; creation lattice offers zero, negative, sub-second and huge periods.",
   note=TB+" Inside the 1-second band either answer is accepted.", technique="runtime timeline monitor with boundary-value lattice"),
 "C06": dict(level="exploration", design="§3 C06",
   text="Step-by-step comparison with the sequential model of the sequence gate: all schedules of length 4/5 over {seq 1..4}x{two executors, stranger} without memoisation, depth 8/10 with state-digest memoisation, and long random schedules with duplicates, replays, gaps, multi-message transactions, executor rotation, refunds and unrelated traffic; NOOP must leave the written state byte-identical.",
   note=TB, technique="runtime sequential reference model over exhaustive and random delivery schedules"),
 "C07": dict(level="fault_enumeration", design="§3 C07",
   text="Outcome classifier (CREDIT / REFUND / illegal) over balances, supply, sequences, events and the auth store, applied to 250+ input classes (recipient x amount x payload) fault-free and with an error and a panic injected at every recorded bank/account-keeper call (five proxy layers), plus byte-mutation and random fuzz of the hook payload and a recording gas meter for the hook-gas bound.",
   note=TB+" Sites outside the 'failing hook or failing mint/transfer' sentence (zero-amount account creation, denom metadata, reclaim/burn) are asserted as legal-outcome-or-atomic-error-with-successful-retry; the per-site table is in the evidence.", technique="fault injection at keeper-interface proxies + outcome classifier + payload fuzz"),
 "C10": dict(level="exploration", design="§3 C10",
   text="Per-bridge sequence model, event/request/balance triple comparison and token-pair derivation (independent L2 denom) checked after every step of random histories interleaving bridge creation and deposits over ids that partly do not exist yet.",
   note=TB, technique="runtime reference-model monitor over random histories"),
 "C11": dict(level="exploration", design="§3 C11",
   text="Structural invariant of the stored output log (contiguity, strictly increasing L2 blocks, monotone L1 times, final prefix, suffix-only deletion, agreement with a reference list) read through the paginated queries after every step of random propose/delete/re-propose histories with off-by-one indices and L2 blocks.",
   note=TB, technique="runtime structural-invariant monitor at quiescent points"),
 "C17": dict(level="exploration", design="§3 C17",
   text="Differential monitor: every exported commitment/identifier function is compared, on lattice and random inputs, with an independent from-scratch Keccak/ADR-028 implementation that is itself pinned to python-hashlib vectors; purity is observed with canary arenas around every argument under four memory layouts of the proof list, at function level and through the real MsgFinalizeTokenWithdrawal handler. Held-on-observed-executions, not a proof.",
   note="Trusts python3 hashlib (vectors generated once, committed), Go's memory model for the canary arenas; hash collisions not searched.",
   technique="differential runtime monitor + memory canaries (race/checkptr build in thorough)",
   thorough_extra=""),
}
def main():
    fixed = []
    checks = []
    for pid in ALL:
        c = CHECKS.get(pid)
        if not c: continue
        checks.append({
            "property_id": pid,
            "quick_cmd": f"bin/vcheck {pid} --tier quick",
            "thorough_cmd": f"bin/vcheck {pid} --tier thorough" + c.get("thorough_extra",""),
            "evidence_file": f"/verif/evidence/{pid}.json",
            "replay_cmd_template": f"bin/vcheck {pid} --replay {{path}}",
            "engine": "vcheck",
            "level_claimed": {"category": c["level"], "text": c["text"], "design_ref": c["design"]},
            "level_note": c["note"],
            "technique": c["technique"],
        })
    na = [{"property_id": p, "reason": "check not built yet in this round (planned; see DESIGN.md §3) - runtime monitoring is applicable"} for p in ALL if p not in CHECKS]
    m = {
      "version": 1,
      "setup_cmd": "bin/setup",
      "hooks": {"guard": "verif", "enable": "go build -tags verif (every harness build passes it; no tagged code exists in /repo: all observation points are exported APIs and interfaces the harness supplies)",
                "baseline_off_cmd": "scripts/baseline.sh", "source_commits": [], "add_only": True},
      "engines": [{"name": "vcheck", "path": "harness/cmd/vcheck", "serves_properties": sorted(CHECKS), "kind_free_text": "Go harness linking the real ophost/opchild keepers; per-property workload + runtime monitors; one process per check"}],
      "checks": checks,
      "not_applicable": na,
      "notes": "Runtime monitoring only. Exit codes: 0 held, 1 violation, 2 inconclusive (never folded into the others). KNOWN_FINDINGS.txt lists recorded findings and fixed defects.",
    }
    json.dump(m, open(os.path.join(V, "MANIFEST.json"), "w"), indent=1)
    print("wrote MANIFEST.json with", len(checks), "checks;", len(na), "not_applicable")
main()
