#!/usr/bin/env python3
"""Generates /verif/MANIFEST.json from the table below (single source of truth)."""
import json, os
V = os.path.dirname(os.path.dirname(os.path.abspath(__file__)))
ALL = ["C%02d" % i for i in range(1, 21)]
TB = "Trusted base: the harness's baseapp-equivalent delivery (branch, run, write on success, recover panics), the cosmos-sdk bank/auth keepers, and the independent ref implementation; rollback of rejected messages is never counted as evidence."
CHECKS = {
 "C01": dict(level="exploration", design="§3 C01",
   text="Conservation ledger + isolation monitor evaluated after every message of seeded random multi-bridge histories over the real ophost handlers (all message types, valid and invalid, third-party sends, forged and cross-bridge claims, deposits around 2^63/2^64 by a funded account, and scripts executed on state branches that are thrown away — create-bridge+deposit, ghost proposals+claims): escrow == ledger for every id, exact per-account balance deltas, unchanged supply, byte-identical views and raw-key attribution for all other bridges. Held on the executions listed in the evidence.",
   note=TB, technique="runtime reference-model monitor (conservation ledger, per-bridge view isolation) over random histories"),
 "C02": dict(level="exploration", design="§3 C02",
   text="Exactly-once monitor (paid counter per withdrawal identity, recipient balance = sum of paid amounts, Claimed query agreement incl. other bridge ids) over a memoised bounded-exhaustive DFS on copy-on-write branches (3 leaves, 4 overlapping tree variants, <=3 live outputs, propose/delete/advance/finalize) and over long random histories with re-included leaves, deletions and re-proposals; every paid claim is re-submitted by privileged accounts (governance, roles, module accounts, escrow), under another spelling of the recipient, and from inside its own payout transfer (re-entrancy through a wrapped bank keeper).",
   note=TB, technique="runtime exactly-once monitor over bounded-exhaustive DFS + random histories"),
 "C03": dict(level="exploration", design="§3 C03",
   text="Soundness oracle: every accepted finalization is re-verified with an independent implementation against the output stored at the named index; a perturbation engine submits, for every tree size/shape/position, each single-field mutation (every bit position of roots and proof elements, arithmetic on sequence/amount, foreign bridge/output, swapped and concatenated addresses, structural proof edits) and random multi-field mixes in three oracle states, with the unperturbed claim as positive control; deep paths (1..256), stored-root byte perturbation, and ghost roots proposed only on discarded branches. The stored root is read by iteration, not through the getter the handler uses.",
   note=TB+" Hash collisions are not searched for.", technique="runtime soundness oracle + exhaustive single-field perturbation with positive controls"),
 "C04": dict(level="exploration", design="§3 C04",
   text="Completeness monitor over two real chains and a faithful executor model that acts only on parsed events: for every tree size up to the bound, both completion rules, mixes of user and refund withdrawals recorded by the real L2 are committed, the period waited out, and every leaf claimed (and re-claimed) on the real L1; an amount lattice around 2^63/2^64/2^255 is pushed through three paths; hostile denoms and address strings; withdrawals executed inside multi-message deposit hooks, where acceptance is read from the state (sequence advanced, tokens burned) and must equal what was announced.",
   note=TB+" Premise: positive amount, valid L1 recipient.", technique="runtime completeness monitor (every recorded withdrawal must finalize) with boundary-value lattice"),
 "C05": dict(level="exploration", design="§3 C05",
   text="Timeline monitor with a three-valued finality model in exact nanoseconds: a deterministic lattice drives an output of every accepted period to block times exactly at and one tick around T0+P and probes finalize/delete/query on branches; random timelines add propose/delete/re-propose/role interleavings; creation lattice offers zero, negative, sub-second and huge periods.",
   note=TB+" Inside the 1-second band either answer is accepted.", technique="runtime timeline monitor with boundary-value lattice"),
 "C06": dict(level="exploration", design="§3 C06",
   text="Step-by-step comparison with the sequential model of the sequence gate: all schedules of length 4/5 over {seq 1..4}x{two executors, stranger} without memoisation, depth 8/10 with state-digest memoisation, and long random schedules with duplicates, replays, gaps, multi-message transactions, executor rotation, refunds (also for denoms whose bank metadata pre-exists), speculative execution on discarded branches and unrelated traffic; NOOP must leave the written state byte-identical.",
   note=TB, technique="runtime sequential reference model over exhaustive and random delivery schedules"),
 "C07": dict(level="fault_enumeration", design="§3 C07",
   text="Outcome classifier (CREDIT / REFUND / illegal) over balances, supply, sequences, events and the auth store, applied to 250+ input classes (recipient x amount x payload) fault-free and with an error and a panic injected at every recorded bank/account-keeper call (five proxy layers), plus byte-mutation and random fuzz of the hook payload (up to 1 MiB), a recording gas meter for the hook-gas bound on fresh and pre-consumed meters, and a stale-payload replay scenario (a failed hook must consume its signer's sequence).",
   note=TB+" Sites outside the 'failing hook or failing mint/transfer' sentence (zero-amount account creation, denom metadata, reclaim/burn) are asserted as legal-outcome-or-atomic-error-with-successful-retry; the per-site table is in the evidence.", technique="fault injection at keeper-interface proxies + outcome classifier + payload fuzz"),
 "C08": dict(level="exploration", design="§3 C08",
   text="Two-chain simulation under a seeded single-threaded scheduler (every observed state is a consistent cut); the solvency equation escrow = L2 supply + deposits in flight + unpaid withdrawals is evaluated after every step from bank balances, the two sequence queries, the Claimed query and parsed events; each run ends with a full drain (every claim exactly once, escrow == supply, holdings conserved).",
   note=TB+" Premise: faithful executor; amounts < 2^62.", technique="runtime conservation monitor over scheduled two-chain interleavings + drain"),
 "C09": dict(level="exploration", design="§3 C09",
   text="L2 supply ledger, shared gap-free L2 sequence, write-once denom mapping and exact signer-only burn checked after every message of random L2 histories with credited/refunded/zero/conflicting-base deposits, transfers and withdrawals of bridged, native and unknown denoms below/at/above the balance, committed and discarded replays of processed sequences naming other denoms, deposits whose mint/transfer fails or panics underneath the handler, hooks that withdraw.",
   note=TB, technique="runtime reference-model monitor over random histories"),
 "C10": dict(level="exploration", design="§3 C10",
   text="Per-bridge sequence model, event/request/balance triple comparison and token-pair derivation (independent L2 denom) checked after every step of random histories interleaving bridge creation and deposits over ids that partly do not exist yet.",
   note=TB, technique="runtime reference-model monitor over random histories"),
 "C11": dict(level="exploration", design="§3 C11",
   text="Structural invariant of the stored output log (contiguity, strictly increasing L2 blocks, monotone L1 times, final prefix, suffix-only deletion, agreement with a reference list) read through the paginated queries after every step of random propose/delete/re-propose histories with off-by-one indices and L2 blocks; plus a bounded-exhaustive exploration (depth 5 quick, 6 thorough; state-digest memoisation) of propose x {next-1,next,next+1} x L2 block {last-1,last,last+1,last+7,2^64-1} x {fresh, byte-identical root} x signer, delete 0..next and four time steps against a complete sequential model of the log (every accept/reject decision, list and single queries, next index, last-finalized query, other bridge untouched).",
   note=TB, technique="runtime sequential reference model over bounded-exhaustive DFS + structural-invariant monitor over random histories"),
 "C12": dict(level="exploration", design="§3 C12",
   text="Authorization-matrix oracle: in each state reached by random role rotations every permissioned message type (8 on L1, 8 on L2) is built valid in every other respect, its proto-declared signer checked to be the candidate, and delivered on a branch for every candidate signer (authority, current and past holders, same role on another bridge, admin, strangers); success must equal the role table's verdict and every message type must be seen succeeding for a legitimate holder. Plus MsgExecuteMessages all-or-nothing cases (incl. batches mixing authority-signed and user-signed messages, whose user funds must not move), immediate probes after every rotation (also by plans firing at a full validator set), and bridge-binding mutations (bech32 / hex / free-text addresses, ids, chain ids, client ids) from three start states. Other transactions run on discarded branches before every probe.",
   note=TB, technique="runtime authorization-matrix oracle (role table vs probe on branched state)"),
 "C13": dict(level="exploration", design="§3 C13",
   text="Engine/state agreement monitor: the real CometBFT ValidatorSet accumulates every batch returned by InitGenesis/EndBlocker and is compared after every block with the positive-power validators in state and the recorded last powers; index bijection, capacity, removal-by-end-of-block and per-height history are checked; memoised bounded-exhaustive DFS over add/remove/end-block/max/retention from three genesis sets plus random longer histories; plus every genesis validator list over operators x keys x powers {-1,0,1,3} (all lists of <=2, sampled lists of 3-4, distinct operators) that the module's ValidateGenesis accepts: it must start consistent and survive a short script.",
   note=TB+" Engine oracle: cometbft v0.38.12. An engine refusal because every validator was removed ends the history without alarm. Pruning asserted only when retention was never 0.", technique="runtime differential monitor against the real consensus-engine validator set over bounded-exhaustive DFS"),
 "C14": dict(level="exploration", design="§3 C14",
   text="Same engine monitor around plan heights: every plan class (new/known operator x new/own/foreign key) x executor lists x max validators x mid-block operation applied to every validator-set state reachable within the depth bound; engine set, state and executors read at h-1, h, h+1; executor authorisation is also probed behaviourally (a deposit finalization offered by every old and planned executor before and after the height); malformed plans must be rejected leaving the plan table untouched. Two classes of plans are recorded as known findings with explicit (class, clause) signatures.",
   note=TB+" Plan table is process memory, snapshotted/restored around scenarios.", technique="runtime differential monitor against the real consensus-engine validator set over enumerated plan classes x reachable states"),
 "C15": dict(level="exploration", design="§3 C15",
   text="Quorum oracle computed from the harness's own knowledge of every key in the extended commits it generates (24 attack kinds incl. forged entries after the quorum point and genuine signatures harvested from an earlier commit over other extensions, x 9 power vectors around the 2/3 line, sequences with equal/older/newer timestamps, oracle flag toggles, host-set refreshes): any price or timestamp change must be backed by distinct host validators with >= 2/3 power that each supplied a decodable price in a commit-flagged entry carrying their own valid signature; timestamps strictly increase; host set only replaced by a higher height from the configured client.",
   note=TB+" Connect's codecs and ed25519 are trusted to build the adversarial commits; necessary-condition direction only.", technique="runtime quorum oracle over adversarially generated inputs"),
 "C16": dict(level="exploration", design="§3 C16",
   text="For states sampled along random histories of both modules: ValidateGenesis(Export), JSON round trip, InitGenesis on a fresh chain, byte comparison of the re-export, engine check of the L2 import's validator updates, and a lock-step probe script of 60-150 messages and queries whose transcripts on the original and the re-imported chain must be identical. States include exports taken in the middle of a block (after add+remove, after a removal), chains that never registered their bridge info, hooks disabled (hook_max_gas 0), several bridges with different log lengths.",
   note=TB+" Host validator snapshot and per-height history are excluded as the statement says.", technique="runtime differential execution (original vs re-imported chain) + round-trip equality"),
 "C17": dict(level="exploration", design="§3 C17", thorough_extra=" --race",
   text="Differential monitor: every exported commitment/identifier function is compared, on lattice and random inputs, with an independent from-scratch Keccak/ADR-028 implementation that is itself pinned to python-hashlib vectors; purity is observed with canary arenas around every argument under four memory layouts of the proof list, at function level and through the real MsgFinalizeTokenWithdrawal handler (receivers in lower- and upper-case bech32), and with 16 goroutines calling the functions concurrently on their own inputs. Held-on-observed-executions, not a proof.",
   note="Trusts python3 hashlib (vectors generated once, committed), Go's memory model for the canary arenas; hash collisions not searched.",
   technique="differential runtime monitor + memory canaries (race/checkptr build in thorough)",
   ),
 "C18": dict(level="exploration", design="§3 C18", thorough_extra=" --race",
   text="N in-process replicas (4 quick, 16 thorough; half sequential, half concurrent goroutines, thorough under the Go race detector) plus one replica in a child process with another time zone and GOMAXPROCS execute the same seeded histories (two-chain bridge traffic, validator bursts with >=3 removals per block and change plans, 7-validator x 6-pair oracle updates, 4-bridge world with export/re-import, permissioned-channel histories, oracle updates stamped around the wall clock); replicas differ in process history only: odd ones run every transaction and scripts of other transactions on discarded branches first, every second pair restarts (fresh keepers over the same stores) every few transactions; complete transcripts (responses, full error strings, gas, events and validator updates in order, store digest per block, exports) are compared line by line.",
   note=TB+" Each replica is an independent draw of Go's map iteration orders and runs at a different wall-clock time; detection of an unsorted 3-element iteration has probability 1-(1/6)^(N-1) per order-sensitive step.", technique="runtime replica comparison + Go race detector"),
 "C19": dict(level="exploration", design="§3 C19",
   text="Reference model of the grant rule compared with the permission table after every operation of random create / update-metadata / update-challenger histories through the real ophost message path and the real hook.BridgeHook, over a hostile metadata corpus and changing channel states; the reference parser uses its own declaration of the documented structure; both directions of the grant rule are asserted (refused when a condition fails; accepted when every listed channel is clearly grantable).",
   note=TB+" Channel and permission keepers are in-store stand-ins for the IBC modules.", technique="runtime reference-model monitor over random histories and a hostile input corpus"),
 "C20": dict(level="exploration", design="§3 C20",
   text="Arithmetic oracle in exact rationals for the fee floor (two-sided for gas>0), direct predicates for the system and free lane matchers on generated message shapes and whitelist combinations, and the sequence model for the redundant-relay filter, each across CheckTx/ReCheckTx/DeliverTx/simulate modes; handler objects (ante decorators, lane matchers) live for the whole run while params, whitelists and price vectors change under them.",
   note=TB+" For gas = 0 only the stated 'only if' direction is asserted.", technique="runtime differential oracle (exact-rational arithmetic, shape predicates) over generated inputs"),
}
def main():
    fixed = []
    checks = []
    # later additions to the workloads / oracles (rounds 8-10 of seeded changes), appended to the descriptions above
    ADD = {
      "C01": " Withdrawals also name module accounts and the bridge's own escrow as recipients, and a withdrawal leaves the escrow once however often it is submitted.",
      "C02": " Bridges are also created between payments and re-submissions.",
      "C03": " Every rejected claim that does not verify is also inspected in the handler's own state branch before that branch is discarded: it may not have written a single store entry.",
      "C06": " Schedules include deposits whose multi-message hook spends part of the deposit and then fails, and executors signing under the upper-case spelling of their address.",
      "C09": " Unusable recipients include the blocked fee collector holding bridged tokens of its own; a third of the chains never registers its bridge info.",
      "C11": " The alphabet includes the predecessor's block number together with its very root at the next index; bridges imported with next output index 0 and 1 are proposed to.",
      "C12": " Every update is also probed in a form that changes nothing (names the current holder / repeats the stored value).",
      "C14": " Malformed registrations also reuse the proposal id of the pending plan.",
      "C16": " One L1 state holds 130 token pairs, 130 batch-info generations and 240 outputs, one L2 state 130 bridged denoms (more than a query page).",
      "C17": " Deposits of empty and unit amounts of ordinary, 128-character, look-alike ('l2/<64 hex>') and fresh denoms must announce and register the documented derived denom.",
      "C18": " While the concurrent replicas run, four more goroutines serve queries on chains of their own (about two million calls per quick run).",
      "C19": " Lists of 31..90 channels and metadata whose winner depends on key order are included; in some operations the admin lookup fails underneath the hook.",
      "C20": " Contexts sit at heights 0, 1, 2, the current height and 2^40; fresh deposits that bounce are fresh.",
      "C04": " Hooks that fail after a withdrawal went through, and an L1 denom of the shape 'l2/<64 hex>', are included.",
      "C05": " The creation lattice covers every batch chain type; deletion ranges starting at a final output are tried with 10..140 pending outputs behind it.",
      "C07": " Failure texts longer than the reason limit in bytes but not in characters are included; on chains that have not minted yet, empty and unit deposits name module addresses and the deposits after them must still be credited and withdrawable (defect #12).",
      "C13": " Operators are spelled in upper case in every third genesis list and add message; every fifth consensus key is secp256k1.",
      "C15": " Forged entries also carry 0 or -1 in their own power field.",
    }
    for pid, extra in ADD.items():
        if pid in CHECKS and not CHECKS[pid]["text"].endswith(extra):
            CHECKS[pid]["text"] += extra
    for pid in ALL:
        c = CHECKS.get(pid)
        if not c: continue
        checks.append({
            "property_id": pid,
            "quick_cmd": f"bin/vcheck {pid} --tier quick",
            "thorough_cmd": f"bin/vcheck {pid} --tier thorough" + c.get("thorough_extra",""),
            "evidence_file": f"/verif/evidence/{pid}.json",
            "replay_cmd_template": f"bin/vcheck {pid} --replay {{path}}",
            "engine": "vcheck",
            "level_claimed": {"category": c["level"], "text": c["text"], "design_ref": c["design"]},
            "level_note": c["note"],
            "technique": c["technique"],
        })
    na = [{"property_id": p, "reason": "check not built yet (runtime monitoring is applicable; see DESIGN.md §3)"} for p in ALL if p not in CHECKS]
    m = {
      "version": 1,
      "setup_cmd": "bin/setup",
      "hooks": {"guard": "verif", "enable": "go build -tags verif (every harness build passes it; no tagged code exists in /repo: all observation points are exported APIs and interfaces the harness supplies)",
                "baseline_off_cmd": "scripts/baseline.sh", "source_commits": [], "add_only": True},
      "engines": [{"name": "vcheck", "path": "harness/cmd/vcheck", "serves_properties": sorted(CHECKS), "kind_free_text": "Go harness linking the real ophost/opchild keepers; per-property workload + runtime monitors; one process per check"}],
      "checks": checks,
      "not_applicable": na,
      "notes": "Runtime monitoring only. Exit codes: 0 held, 1 violation, 2 inconclusive (never folded into the others). KNOWN_FINDINGS.txt lists recorded findings and fixed defects.",
    }
    json.dump(m, open(os.path.join(V, "MANIFEST.json"), "w"), indent=1)
    print("wrote MANIFEST.json with", len(checks), "checks;", len(na), "not_applicable")
main()
