#!/usr/bin/env python3
"""Generates /verif/MANIFEST.json from the table below (single source of truth)."""
import json, os
V = os.path.dirname(os.path.dirname(os.path.abspath(__file__)))
ALL = ["C%02d" % i for i in range(1, 21)]
CHECKS = {
 "C17": dict(level="exploration", design="§3 C17",
   text="Differential monitor: every exported commitment/identifier function is compared, on lattice and random inputs, with an independent from-scratch Keccak/ADR-028 implementation that is itself pinned to python-hashlib vectors; purity is observed with canary arenas around every argument under four memory layouts of the proof list, at function level and through the real MsgFinalizeTokenWithdrawal handler. Held-on-observed-executions, not a proof.",
   note="Trusts python3 hashlib (vectors generated once, committed), Go's memory model for the canary arenas; hash collisions not searched.",
   technique="differential runtime monitor + memory canaries (race/checkptr build in thorough)",
   thorough_extra=""),
}
def main():
    fixed = []
    checks = []
    for pid in ALL:
        c = CHECKS.get(pid)
        if not c: continue
        checks.append({
            "property_id": pid,
            "quick_cmd": f"bin/vcheck {pid} --tier quick",
            "thorough_cmd": f"bin/vcheck {pid} --tier thorough" + c.get("thorough_extra",""),
            "evidence_file": f"/verif/evidence/{pid}.json",
            "replay_cmd_template": f"bin/vcheck {pid} --replay {{path}}",
            "engine": "vcheck",
            "level_claimed": {"category": c["level"], "text": c["text"], "design_ref": c["design"]},
            "level_note": c["note"],
            "technique": c["technique"],
        })
    na = [{"property_id": p, "reason": "check not built yet in this round (planned; see DESIGN.md §3) - runtime monitoring is applicable"} for p in ALL if p not in CHECKS]
    m = {
      "version": 1,
      "setup_cmd": "bin/setup",
      "hooks": {"guard": "verif", "enable": "go build -tags verif (every harness build passes it; no tagged code exists in /repo: all observation points are exported APIs and interfaces the harness supplies)",
                "baseline_off_cmd": "scripts/baseline.sh", "source_commits": [], "add_only": True},
      "engines": [{"name": "vcheck", "path": "harness/cmd/vcheck", "serves_properties": sorted(CHECKS), "kind_free_text": "Go harness linking the real ophost/opchild keepers; per-property workload + runtime monitors; one process per check"}],
      "checks": checks,
      "not_applicable": na,
      "notes": "Runtime monitoring only. Exit codes: 0 held, 1 violation, 2 inconclusive (never folded into the others). KNOWN_FINDINGS.txt lists recorded findings and fixed defects.",
    }
    json.dump(m, open(os.path.join(V, "MANIFEST.json"), "w"), indent=1)
    print("wrote MANIFEST.json with", len(checks), "checks;", len(na), "not_applicable")
main()
