#!/bin/bash
# Runs the repository's own test suite with the verif guard OFF (no build tags)
# and prints a pass/fail summary. Exit 0 iff no test failed.
export GOPROXY=off GOSUMDB=off GOTOOLCHAIN=local
unset GOFLAGS
cd "${VERIF_REPO:-/repo}" || exit 2
out=$(mktemp)
rc=0
for m in . ./api; do
  ( cd "$m" && go test -json -vet=off -count=1 -timeout 25m ./... ) >> "$out" 2>&1 || rc=1
done
python3 - "$out" <<'PY'
import json,sys
p=f=0; failed=[]
for line in open(sys.argv[1]):
    try: e=json.loads(line)
    except Exception: continue
    if e.get("Test") and e.get("Action") in ("pass","fail"):
        if e["Action"]=="pass": p+=1
        else: f+=1; failed.append(e["Package"]+"::"+e["Test"])
print(f"baseline: passed={p} failed={f}")
for t in failed: print("FAILED", t)
sys.exit(1 if f else 0)
PY
prc=$?
rm -f "$out"
[ $rc -eq 0 ] && [ $prc -eq 0 ]
