#!/bin/bash
# scripts/confirm_seed.sh <seed-src-dir> <A|B> — independently confirm a seeded change in a scratch worktree:
# builds, existing tests pass, demo fails with the change, demo passes without it. Prints CONFIRMED or the reason.
set -u
export GOPROXY=off GOSUMDB=off GOTOOLCHAIN=local; unset GOFLAGS  # the repository is in go.work mode
src="$1"; L="$2"
patch="$src/$L.patch.diff"; demo="$src/${L}_demo_test.go"; meta="$src/$L.meta.json"
[ -f "$patch" ] && [ -f "$demo" ] && [ -f "$meta" ] || { echo "MISSING files for $L in $src"; exit 2; }
wt=$(mktemp -d /tmp/confirm-XXXXXX); rmdir "$wt"
git -C /repo worktree add -q --detach "$wt" HEAD || exit 2
cleanup() { git -C /repo worktree remove --force "$wt" >/dev/null 2>&1; rm -rf "$wt"; }
trap cleanup EXIT
cd "$wt"
place=$(python3 -c "import json;print(json.load(open('$meta'))['demo_path'])")
tname=$(python3 -c "import json;print(json.load(open('$meta'))['demo_test'])")
pkg="./$(dirname "$place")/..."
pkg="./$(dirname "$place")"
git apply "$patch" || { echo "PATCH DOES NOT APPLY"; exit 1; }
go build ./... > build.log 2>&1 || { echo "DOES NOT BUILD"; tail -5 build.log; exit 1; }
go test -count=1 ./x/... > tests.log 2>&1 || { echo "EXISTING TESTS FAIL WITH CHANGE"; grep -E "^(--- FAIL|FAIL)" tests.log | head; exit 1; }
cp "$demo" "$place"
if go test -count=1 -run "^(${tname})\$" "$pkg" > demo_with.log 2>&1; then echo "DEMO PASSES WITH CHANGE (should fail)"; exit 1; fi
grep -q "^--- FAIL" demo_with.log || { echo "DEMO did not fail as a test (build error?)"; tail -8 demo_with.log; exit 1; }
rm -f "$place"; git checkout -- . ; cp "$demo" "$place"
go test -count=1 -run "^(${tname})\$" "$pkg" > demo_without.log 2>&1 || { echo "DEMO FAILS WITHOUT CHANGE"; tail -8 demo_without.log; exit 1; }
grep -q "^ok" demo_without.log || { echo "DEMO not run without change"; exit 1; }
echo "CONFIRMED $L: builds, existing tests pass, demo $tname fails with change and passes without"
