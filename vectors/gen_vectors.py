#!/usr/bin/env python3
"""Produces pinned vectors for C17 with Python's hashlib (an implementation
independent of both the chain's x/crypto/sha3 and the harness's own Keccak)."""
import hashlib, json, struct
def sha3(b): return hashlib.sha3_256(b).digest()
def be64(v): return struct.pack(">Q", v)
def leaf(bridge, seq, sender, receiver, denom, amount):
    seed = be64(bridge)+be64(seq)+sha3(sender.encode())+sha3(receiver.encode())+sha3(denom.encode())+be64(amount)
    return sha3(sha3(seed))
def node(a,b):
    return sha3(a+b) if a < b else sha3(b+a)
def output_root(version, storage_root, block_hash):
    return sha3(bytes([version])+storage_root+block_hash)
def l2denom(bridge, l1):
    return "l2/"+sha3(be64(bridge)+l1.encode()).hex()
def bridge_addr(bridge):
    th = hashlib.sha256(b"module").digest()
    return hashlib.sha256(th+b"ophost"+b"\x00"+be64(bridge)).digest()
out = {"sha3":[], "leaf":[], "node":[], "output_root":[], "l2denom":[], "bridge_addr":[]}
for m in [b"", b"abc", b"a"*135, b"a"*136, b"a"*137, b"\x00"*272, bytes(range(256))*3]:
    out["sha3"].append({"in":m.hex(),"out":sha3(m).hex()})
M=2**64-1
for args in [(1,1,"a","b","c",1),(0,0,"","","",0),(M,M,"x"*100,"y"*200,"uinit",M),(2,3,"cosmos1xyz","init1é中","l2/abc",2**63),
             (1,4,"init1z3689ct7pc72yr5an97nsj89dnlefydxwdhcv0","init174knscjg688ddtxj8smyjz073r3w5mmsp3m0m2","uinit",3000000)]:
    out["leaf"].append({"args":list(args),"out":leaf(*args).hex()})
for a,b in [(b"\x00"*32,b"\x00"*32),(b"\x00"*32,b"\xff"*32),(b"\x01"+b"\x00"*31,b"\x00"*31+b"\x01"),(sha3(b"1"),sha3(b"2")),(b"\xff"*31+b"\xfe",b"\xff"*32)]:
    out["node"].append({"a":a.hex(),"b":b.hex(),"out":node(a,b).hex()})
for v,s,h in [(0,b"\x00"*32,b"\x00"*32),(1,sha3(b"s"),sha3(b"h")),(255,b"\xff"*32,b"\x11"*32)]:
    out["output_root"].append({"version":v,"storage_root":s.hex(),"block_hash":h.hex(),"out":output_root(v,s,h).hex()})
for b,d in [(1,"uinit"),(0,""),(M,"x"*128),(7,"ibc/ABCDEF"),(2,"l2/"+"ab"*32)]:
    out["l2denom"].append({"bridge":b,"l1denom":d,"out":l2denom(b,d)})
for b in [0,1,2,255,256,2**32,M]:
    out["bridge_addr"].append({"bridge":b,"out":bridge_addr(b).hex()})
json.dump(out, open("c17_vectors.json","w"), indent=1, ensure_ascii=True)
print("ok")
