package props

import (
	"bytes"
	"encoding/hex"
	"encoding/json"
	"fmt"
	"os"
	"path/filepath"
	"strings"
	"sync"

	"cosmossdk.io/math"
	sdk "github.com/cosmos/cosmos-sdk/types"

	ophosttypes "github.com/initia-labs/OPinit/x/ophost/types"

	"verifharness/mon"
	"verifharness/ref"
	"verifharness/sim"
)

func init() { register("C17", "exploration", checkC17) }

type c17Vectors struct {
	Sha3 []struct{ In, Out string } `json:"sha3"`
	Leaf []struct {
		Args []interface{} `json:"args"`
		Out  string        `json:"out"`
	} `json:"leaf"`
	Node       []struct{ A, B, Out string } `json:"node"`
	OutputRoot []struct {
		Version     int    `json:"version"`
		StorageRoot string `json:"storage_root"`
		BlockHash   string `json:"block_hash"`
		Out         string `json:"out"`
	} `json:"output_root"`
	L2Denom []struct {
		Bridge  uint64 `json:"bridge"`
		L1Denom string `json:"l1denom"`
		Out     string `json:"out"`
	} `json:"l2denom"`
	BridgeAddr []struct {
		Bridge uint64 `json:"bridge"`
		Out    string `json:"out"`
	} `json:"bridge_addr"`
}

func verifDir() string {
	if d := os.Getenv("VERIF_DIR"); d != "" {
		return d
	}
	return "/verif"
}

func mustHex(s string) []byte {
	b, err := hex.DecodeString(s)
	if err != nil {
		panic(err)
	}
	return b
}

var u64Lattice = []uint64{0, 1, 2, 255, 256, 65535, 1 << 31, 1<<32 - 1, 1 << 32, 1<<53 - 1, 1 << 53, 1<<63 - 1, 1 << 63, 1<<63 + 1, 1<<64 - 2, 1<<64 - 1}

func randU64(r *mon.Rand) uint64 {
	switch r.Intn(4) {
	case 0:
		return mon.Pick(r, u64Lattice)
	case 1:
		return uint64(r.Intn(1000))
	default:
		return r.U64()
	}
}

var strLattice = []string{"", "a", "uinit", "init1z3689ct7pc72yr5an97nsj89dnlefydxwdhcv0", "cosmos1qyqszqgpqyqszqgpqyqszqgpqyqszqgpjnp7du",
	"0x1", "é中文🙂", "a\x00b", "\x00", "\xff\xfe\xfd", "l2/abcdef", "ibc/27394FB092D2ECCD56123C74F36E4C1F926001CEADA9CA97EA622B25F41E5EB2"}

func randStr(r *mon.Rand) string {
	switch r.Intn(6) {
	case 0, 1:
		return mon.Pick(r, strLattice)
	case 2:
		return string(r.Bytes(r.Intn(40)))
	case 3:
		n := []int{135, 136, 137, 272, 1000, 10240}[r.Intn(6)]
		return string(bytes.Repeat([]byte{byte('a' + r.Intn(26))}, n))
	default:
		return fmt.Sprintf("addr%x", r.U64())
	}
}

func rand32(r *mon.Rand) []byte {
	switch r.Intn(8) {
	case 0:
		return make([]byte, 32)
	case 1:
		return bytes.Repeat([]byte{0xff}, 32)
	default:
		return r.Bytes(32)
	}
}

// arena is a canary-filled buffer inside which inputs are carved, so that writes
// outside the input's own bytes are visible.
type arena struct {
	buf  []byte
	snap []byte
}

func newArena(n int) *arena {
	a := &arena{buf: make([]byte, n)}
	for i := range a.buf {
		a.buf[i] = 0xA5 ^ byte(i*7)
	}
	return a
}
func (a *arena) snapshot()     { a.snap = append(a.snap[:0], a.buf...) }
func (a *arena) changed() bool { return !bytes.Equal(a.snap, a.buf) }
func (a *arena) firstDiff() int {
	for i := range a.buf {
		if a.buf[i] != a.snap[i] {
			return i
		}
	}
	return -1
}

// layouts of a proof list; each returns the list plus the arena that backs it.
const (
	layoutSeparate   = iota // separately allocated, exact capacity
	layoutContiguous        // sub-slices of one buffer (capacity runs into the next item)
	layoutSpare             // each item has spare capacity followed by canaries
	layoutAliased           // equal items alias the same memory
	nLayouts
)

var layoutNames = []string{"separate", "contiguous", "spare-capacity", "aliased"}

func layProof(layout int, items [][]byte) ([][]byte, *arena) {
	n := len(items)
	switch layout {
	case layoutSeparate:
		out := make([][]byte, n)
		for i, it := range items {
			out[i] = append(make([]byte, 0, len(it)), it...)
		}
		return out, newArena(0)
	case layoutContiguous:
		total := 0
		for _, it := range items {
			total += len(it)
		}
		a := newArena(16 + total + 96)
		out := make([][]byte, n)
		off := 16
		for i, it := range items {
			copy(a.buf[off:], it)
			out[i] = a.buf[off : off+len(it)] // cap extends to the end of the arena
			off += len(it)
		}
		return out, a
	case layoutSpare:
		a := newArena(16 + n*128 + 16)
		out := make([][]byte, n)
		for i, it := range items {
			off := 16 + i*128
			copy(a.buf[off:], it)
			out[i] = a.buf[off : off+len(it) : off+len(it)+64]
		}
		return out, a
	default: // aliased: identical byte strings share memory; capacity is the arena's
		a := newArena(16 + n*32 + 64)
		out := make([][]byte, n)
		seen := map[string][]byte{}
		off := 16
		for i, it := range items {
			if s, ok := seen[string(it)]; ok {
				out[i] = s
				continue
			}
			copy(a.buf[off:], it)
			out[i] = a.buf[off : off+len(it)]
			seen[string(it)] = out[i]
			off += len(it)
		}
		return out, a
	}
}

func checkC17(run *mon.Run, rng *mon.Rand, thorough bool) {
	run.Rule = "differential cases against an independent Keccak/ADR-028 implementation (itself pinned to python hashlib vectors); a case is non-trivial and distinct by (function, input-class, layout) where input classes are lattice/boundary classes of the arguments Plus: 16 goroutines calling all format functions concurrently on their own inputs (thorough: under the race detector); handler-level claims with lower- and upper-case receivers."
	run.Assumptions = []string{"python3 hashlib SHA3-256/SHA-256 (used once to pin vectors) is correct", "hash collisions are not searched for"}
	for _, c := range []string{"vectors.ref", "vectors.chain", "diff.leaf", "diff.node", "diff.node.commutative", "diff.root", "diff.output_root", "diff.l2denom", "diff.bridge_addr",
		"purity.args_unchanged", "purity.layout_independent", "handler.layout_independent", "handler.leaf_commits_strings_verbatim", "handler.root_is_fold_over_all_elements"} {
		run.Declare(c, 1)
	}

	// ---- pinned vectors: ref and chain both against python's hashlib ----
	var vec c17Vectors
	bz, err := os.ReadFile(filepath.Join(verifDir(), "vectors", "c17_vectors.json"))
	if err != nil {
		panic(err)
	}
	if err := json.Unmarshal(bz, &vec); err != nil {
		panic(err)
	}
	for _, v := range vec.Sha3 {
		h := ref.Sha3_256(mustHex(v.In))
		if hex.EncodeToString(h[:]) != v.Out {
			panic("harness self-check failed: ref.Sha3_256 disagrees with pinned vector")
		}
		run.Hit("vectors.ref")
	}
	// decode leaf vectors with exact integers (JSON floats would lose 2^64-1)
	var raw struct {
		Leaf []struct {
			Args []json.RawMessage `json:"args"`
			Out  string            `json:"out"`
		} `json:"leaf"`
	}
	_ = json.Unmarshal(bz, &raw)
	for _, v := range raw.Leaf {
		var b, s, amt uint64
		var from, to, denom string
		_ = json.Unmarshal(v.Args[0], &b)
		_ = json.Unmarshal(v.Args[1], &s)
		_ = json.Unmarshal(v.Args[2], &from)
		_ = json.Unmarshal(v.Args[3], &to)
		_ = json.Unmarshal(v.Args[4], &denom)
		_ = json.Unmarshal(v.Args[5], &amt)
		r := ref.Leaf(b, s, from, to, denom, amt)
		if hex.EncodeToString(r[:]) != v.Out {
			panic("harness self-check failed: ref.Leaf disagrees with pinned vector")
		}
		run.Hit("vectors.ref")
		c := ophosttypes.GenerateWithdrawalHash(b, s, from, to, denom, amt)
		run.Evaluations++
		run.Check("vectors.chain", hex.EncodeToString(c[:]) == v.Out, "c17.vector.leaf", v, "GenerateWithdrawalHash differs from pinned vector: got %x want %s", c, v.Out)
	}
	for _, v := range vec.Node {
		a, b := mustHex(v.A), mustHex(v.B)
		r := ref.Node(a, b)
		if hex.EncodeToString(r[:]) != v.Out {
			panic("harness self-check failed: ref.Node")
		}
		c := ophosttypes.GenerateNodeHash(append([]byte(nil), a...), append([]byte(nil), b...))
		run.Evaluations++
		run.Check("vectors.chain", hex.EncodeToString(c[:]) == v.Out, "c17.vector.node", v, "GenerateNodeHash differs from pinned vector")
	}
	for _, v := range vec.OutputRoot {
		r := ref.OutputRoot(byte(v.Version), mustHex(v.StorageRoot), mustHex(v.BlockHash))
		if hex.EncodeToString(r[:]) != v.Out {
			panic("harness self-check failed: ref.OutputRoot")
		}
		c := ophosttypes.GenerateOutputRoot(byte(v.Version), mustHex(v.StorageRoot), mustHex(v.BlockHash))
		run.Evaluations++
		run.Check("vectors.chain", hex.EncodeToString(c[:]) == v.Out, "c17.vector.output_root", v, "GenerateOutputRoot differs from pinned vector")
	}
	for _, v := range vec.L2Denom {
		if ref.L2Denom(v.Bridge, v.L1Denom) != v.Out {
			panic("harness self-check failed: ref.L2Denom")
		}
		run.Evaluations++
		run.Check("vectors.chain", ophosttypes.L2Denom(v.Bridge, v.L1Denom) == v.Out, "c17.vector.l2denom", v, "L2Denom differs from pinned vector")
	}
	for _, v := range vec.BridgeAddr {
		if hex.EncodeToString(ref.BridgeAddress(v.Bridge)) != v.Out {
			panic("harness self-check failed: ref.BridgeAddress")
		}
		run.Evaluations++
		run.Check("vectors.chain", hex.EncodeToString(ophosttypes.BridgeAddress(v.Bridge)) == v.Out, "c17.vector.bridge_addr", v, "BridgeAddress differs from pinned vector")
	}

	// ---- differential random + lattice ----
	n := pick(thorough, 6000, 150000)
	classU := func(v uint64) string {
		switch {
		case v == 0:
			return "0"
		case v < 256:
			return "small"
		case v < 1<<32:
			return "<2^32"
		case v < 1<<63:
			return "<2^63"
		case v == 1<<63:
			return "=2^63"
		case v == 1<<64-1:
			return "max"
		default:
			return ">2^63"
		}
	}
	classS := func(s string) string {
		switch {
		case len(s) == 0:
			return "empty"
		case len(s) > 136:
			return "multi-block"
		case !isASCII(s):
			return "non-ascii"
		default:
			return "short"
		}
	}
	for i := 0; i < n; i++ {
		b, s, amt := randU64(rng), randU64(rng), randU64(rng)
		from, to, denom := randStr(rng), randStr(rng), randStr(rng)
		got := ophosttypes.GenerateWithdrawalHash(b, s, from, to, denom, amt)
		want := ref.Leaf(b, s, from, to, denom, amt)
		run.Evaluations++
		if !run.Check("diff.leaf", got == want, "c17.diff.leaf", []interface{}{b, s, from, to, denom, amt}, "leaf differs: got %x want %x", got, want) {
			break
		}
		run.Distinct("leaf/" + classU(b) + "/" + classU(s) + "/" + classU(amt) + "/" + classS(from) + "/" + classS(denom))

		l1 := randStr(rng)
		run.Evaluations++
		run.Check("diff.l2denom", ophosttypes.L2Denom(b, l1) == ref.L2Denom(b, l1), "c17.diff.l2denom", []interface{}{b, l1}, "L2Denom differs")
		run.Distinct("l2denom/" + classU(b) + "/" + classS(l1))
		run.Evaluations++
		run.Check("diff.bridge_addr", bytes.Equal(ophosttypes.BridgeAddress(b), ref.BridgeAddress(b)), "c17.diff.bridge_addr", b, "BridgeAddress differs for %d", b)
		run.Distinct("bridge_addr/" + classU(b))

		ver := byte(rng.Intn(256))
		sr, bh := rand32(rng), rand32(rng)
		srC, bhC := append([]byte(nil), sr...), append([]byte(nil), bh...)
		gotO := ophosttypes.GenerateOutputRoot(ver, sr, bh)
		run.Evaluations++
		run.Check("diff.output_root", gotO == ref.OutputRoot(ver, srC, bhC), "c17.diff.output_root", []interface{}{ver, hex.EncodeToString(sr), hex.EncodeToString(bh)}, "output root differs")
		run.Check("purity.args_unchanged", bytes.Equal(sr, srC) && bytes.Equal(bh, bhC), "c17.purity.output_root_args", nil, "GenerateOutputRoot modified its arguments")
		run.Distinct(fmt.Sprintf("output_root/v%d", ver>>6))
	}

	// ---- history (in)dependence: inputs that would collide in a cache keyed by a naive concatenation of the arguments,
	// called in both orders and re-called; every call must still equal the reference ----
	run.Declare("diff.history_independent", 100)
	for i := 0; i < pick(thorough, 300, 5000); i++ {
		b := uint64(1 + rng.Intn(1000))
		digit := uint64(rng.Intn(10))
		rest := mon.Pick(rng, []string{"uinit", "uusdc", "x", "ibc/ABC", "0", "00", ""}) + fmt.Sprint(rng.Intn(3))
		// (b, digit+rest) and (b*10+digit, rest) have the same decimal concatenation; so have (b, "1"+rest) / (b*10+1, rest) ...
		pairs := [][2]interface{}{{b, fmt.Sprint(digit) + rest}, {b*10 + digit, rest}, {b, rest}, {b * 10, fmt.Sprint(digit) + rest}}
		if rng.Bool() {
			pairs[0], pairs[1] = pairs[1], pairs[0]
		}
		for rep := 0; rep < 2; rep++ {
			for _, pr := range pairs {
				id, d := pr[0].(uint64), pr[1].(string)
				run.Evaluations++
				run.Check("diff.history_independent", ophosttypes.L2Denom(id, d) == ref.L2Denom(id, d), "c17.history_dependent.l2denom", []interface{}{id, d}, "L2Denom(%d,%q) differs from the reference after other calls in this process", id, d)
				run.Check("diff.history_independent", bytes.Equal(ophosttypes.BridgeAddress(id), ref.BridgeAddress(id)), "c17.history_dependent.bridge_addr", id, "BridgeAddress(%d) differs from the reference after other calls", id)
			}
		}
		// leaf: field boundaries shifted between sender / receiver / denom, and case-folded twins
		fa, fb := "ab"+rest, "c"
		for _, f := range [][3]string{{fa, fb, "uinit"}, {"ab", rest + "c", "uinit"}, {fa + fb, "", "uinit"}, {fa, fb + "uinit", ""}, {strings.ToUpper(fa), fb, "uinit"}, {fa, strings.ToUpper(fa), "uinit"}, {"cosmos1abc", "COSMOS1ABC", "uinit"}, {"K", "\u212a", "uinit"}} {
			got := ophosttypes.GenerateWithdrawalHash(b, digit, f[0], f[1], f[2], b)
			run.Evaluations++
			run.Check("diff.history_independent", got == ref.Leaf(b, digit, f[0], f[1], f[2], b), "c17.history_dependent.leaf", []interface{}{b, digit, f}, "leaf for (%q,%q,%q) differs from the reference", f[0], f[1], f[2])
		}
		run.Distinct(fmt.Sprintf("history/%d/%d", digit, len(rest)))
	}

	// ---- node hash: pairs incl. equal / adjacent / last-byte differences, all layouts of the two args ----
	nn := pick(thorough, 6000, 150000)
	for i := 0; i < nn; i++ {
		a := rand32(rng)
		var b []byte
		kind := rng.Intn(6)
		switch kind {
		case 0:
			b = append([]byte(nil), a...)
		case 1: // adjacent: differ by one in the last byte
			b = append([]byte(nil), a...)
			b[31]++
		case 2: // differ in first byte only
			b = append([]byte(nil), a...)
			b[0] ^= 0x80
		default:
			b = rand32(rng)
		}
		want := ref.Node(a, b)
		// lay both arguments inside one arena with spare capacity behind each
		for lay := 0; lay < 3; lay++ {
			ar := newArena(256)
			copy(ar.buf[16:], a)
			copy(ar.buf[128:], b)
			var x, y []byte
			switch lay {
			case 0: // exact capacity
				x, y = ar.buf[16:48:48], ar.buf[128:160:160]
			case 1: // capacity runs on into canaries
				x, y = ar.buf[16:48], ar.buf[128:160]
			case 2: // a directly followed by b (contiguous)
				copy(ar.buf[48:], b)
				x, y = ar.buf[16:48], ar.buf[48:80]
			}
			ar.snapshot()
			g1 := ophosttypes.GenerateNodeHash(x, y)
			ch1 := ar.changed()
			d1 := ar.firstDiff()
			copy(ar.buf, ar.snap)
			g2 := ophosttypes.GenerateNodeHash(y, x)
			ch2 := ar.changed()
			run.Evaluations += 2
			tr := map[string]interface{}{"a": hex.EncodeToString(a), "b": hex.EncodeToString(b), "layout": lay}
			run.Check("diff.node", g1 == want, "c17.diff.node", tr, "node hash differs from reference (layout %d): got %x want %x", lay, g1, want)
			run.Check("diff.node.commutative", g1 == g2, "c17.node.commutative", tr, "GenerateNodeHash(a,b) != GenerateNodeHash(b,a)")
			run.Check("purity.args_unchanged", !ch1 && !ch2, "c17.purity.node_hash_writes_caller_memory", tr, "GenerateNodeHash wrote into caller memory at arena offset %d (layout %d)", d1, lay)
			run.Distinct(fmt.Sprintf("node/kind%d/lay%d/%v", kind, lay, bytes.Compare(a, b)))
		}
		if run.TooMany() {
			break
		}
	}

	// ---- root from proofs under every memory layout ----
	nr := pick(thorough, 3000, 60000)
	for i := 0; i < nr; i++ {
		plen := rng.Intn(41)
		if rng.Chance(30) {
			plen = rng.Intn(5)
		}
		leaf := [32]byte(rand32(rng))
		items := make([][]byte, plen)
		for j := range items {
			items[j] = rand32(rng)
			if j > 0 && rng.Chance(15) {
				items[j] = append([]byte(nil), items[rng.Intn(j)]...) // repeated sibling values
			}
			if rng.Chance(5) {
				items[j] = append([]byte(nil), leaf[:]...)
			}
		}
		want := ref.Root(leaf, items)
		var roots [nLayouts][32]byte
		for lay := 0; lay < nLayouts; lay++ {
			proof, ar := layProof(lay, items)
			ar.snapshot()
			hdrSnap := make([][]byte, len(proof))
			copy(hdrSnap, proof)
			var leafAfter [32]byte
			roots[lay], leafAfter = rootFromProofs(leaf, proof)
			run.Evaluations++
			tr := map[string]interface{}{"leaf": hex.EncodeToString(leaf[:]), "proof_len": plen, "layout": layoutNames[lay]}
			run.Check("diff.root", roots[lay] == want, "c17.root.layout_dependent."+layoutNames[lay], tr, "root from proofs differs from reference under layout %s: got %x want %x", layoutNames[lay], roots[lay], want)
			unchanged := !ar.changed() && leafAfter == leaf
			for j := range proof {
				if !bytes.Equal(proof[j], items[j]) || len(proof[j]) != len(items[j]) {
					unchanged = false
				}
			}
			run.Check("purity.args_unchanged", unchanged, "c17.purity.root_writes_caller_memory", tr, "GenerateRootHashFromProofs modified the proof bytes / adjacent memory under layout %s (first diff at %d)", layoutNames[lay], ar.firstDiff())
			if plen > 0 {
				run.Distinct(fmt.Sprintf("root/len%d/%s", plen, layoutNames[lay]))
			}
		}
		same := true
		for lay := 1; lay < nLayouts; lay++ {
			if roots[lay] != roots[0] {
				same = false
			}
		}
		if plen >= 2 {
			run.Check("purity.layout_independent", same, "c17.root.layout_dependent", map[string]interface{}{"leaf": hex.EncodeToString(leaf[:]), "proof_len": plen}, "root differs between memory layouts of the same proof bytes")
		}
		if run.TooMany() {
			break
		}
	}

	// ---- handler level: the same claim under each layout must get the same verdict ----
	c17Handler(run, rng, thorough)
	c17Concurrent(run, rng, thorough)
	run.Sample(map[string]interface{}{"kind": "node-hash case", "a": "32 random bytes", "b": "a with last byte +1", "layouts": []string{"exact-cap", "spare-cap", "contiguous"}})
	run.Sample(map[string]interface{}{"kind": "root-from-proofs case", "proof_len": 7, "layouts": layoutNames})
}

func isASCII(s string) bool {
	for i := 0; i < len(s); i++ {
		if s[i] >= 0x80 || s[i] == 0 {
			return false
		}
	}
	return true
}

// c17Concurrent: the format functions called from many goroutines at once (block execution, CheckTx, simulation and
// gRPC queries run concurrently in a node), each goroutine on its own inputs; every result is compared with the
// reference. A result that depends on what another caller is doing is not a function of the bytes supplied. The
// thorough tier runs this under the race detector.
func c17Concurrent(run *mon.Run, rng *mon.Rand, thorough bool) {
	run.Declare("purity.concurrent_callers_independent", 8)
	G := 16
	iters := pick(thorough, 4000, 20000)
	type bad struct {
		g, i int
		what string
	}
	var mu sync.Mutex
	var bads []bad
	seeds := make([]uint64, G)
	for g := range seeds {
		seeds[g] = rng.U64()
	}
	var wg sync.WaitGroup
	for g := 0; g < G; g++ {
		wg.Add(1)
		go func(g int) {
			defer wg.Done()
			r := mon.NewRand(seeds[g])
			report := func(i int, what string) {
				mu.Lock()
				if len(bads) < 5 {
					bads = append(bads, bad{g, i, what})
				}
				mu.Unlock()
			}
			defer func() {
				if p := recover(); p != nil {
					report(-1, fmt.Sprintf("panic: %v", p))
				}
			}()
			for i := 0; i < iters; i++ {
				b, sq, amt := randU64(r), randU64(r), randU64(r)
				from, to, denom := randStr(r), randStr(r), randStr(r)
				if got, want := ophosttypes.GenerateWithdrawalHash(b, sq, from, to, denom, amt), ref.Leaf(b, sq, from, to, denom, amt); got != want {
					report(i, "GenerateWithdrawalHash")
				}
				x, y := rand32(r), rand32(r)
				if got, want := ophosttypes.GenerateNodeHash(x, y), ref.Node(x, y); got != want {
					report(i, "GenerateNodeHash")
				}
				leaf := ref.Leaf(b, sq, from, to, denom, amt)
				proof := [][]byte{rand32(r), rand32(r), rand32(r)}
				if got, want := first32(rootFromProofs(leaf, proof)), ref.Root(leaf, proof); got != want {
					report(i, "GenerateRootHashFromProofs")
				}
				if got, want := ophosttypes.GenerateOutputRoot(byte(b), x, y), ref.OutputRoot(byte(b), x, y); got != want {
					report(i, "GenerateOutputRoot")
				}
				if got, want := ophosttypes.L2Denom(b, denom), ref.L2Denom(b, denom); got != want {
					report(i, "L2Denom")
				}
				if i%64 == 0 {
					if got, want := ophosttypes.BridgeAddress(b), ref.BridgeAddress(b); !bytes.Equal(got, want) {
						report(i, "BridgeAddress")
					}
				}
			}
		}(g)
	}
	wg.Wait()
	run.Evaluations += G * iters
	for g := 0; g < G; g++ {
		run.Hit("purity.concurrent_callers_independent")
	}
	for _, b := range bads {
		run.Check("purity.concurrent_callers_independent", false, "c17.concurrent."+b.what, map[string]interface{}{"goroutine": b.g, "iteration": b.i, "goroutines": G}, "%s returned a value that does not follow from its arguments while %d goroutines were calling the format functions concurrently", b.what, G)
	}
	run.Distinct(fmt.Sprintf("concurrent/%dx%d", G, iters))
}

// c17Handler delivers MsgFinalizeTokenWithdrawal with the proof list laid out in
// different ways in memory; verdicts and the message bytes must not depend on it.
func c17Handler(run *mon.Run, rng *mon.Rand, thorough bool) {
	env := newL1Env(1, nil)
	l1 := env.L1
	user := env.Users[0]
	trees := pick(thorough, 12, 60)
	for t := 0; t < trees; t++ {
		nLeaves := 2 + rng.Intn(20)
		ws := make([]Withdrawal, nLeaves)
		for i := range ws {
			ws[i] = Withdrawal{BridgeID: 1, Seq: uint64(t*100 + i + 1), From: fmt.Sprintf("l2user%d", i), To: user.String(), Denom: "uinit", Amount: uint64(1 + rng.Intn(1000))}
			if i%3 == 1 {
				// the documented leaf commits the address strings as given; the same account in bech32's all-upper-case spelling
				ws[i].To = strings.ToUpper(user.String())
			}
			if i == 2 {
				// the leaf commits a full unsigned 64-bit amount
				ws[i].Amount = []uint64{1<<63 - 1, 1 << 63, 1<<64 - 1}[t%3]
				big := sdk.NewCoin("uinit", math.NewIntFromUint64(ws[i].Amount))
				l1.Fund(user.Addr, big)
				if r := l1.Deliver(ophosttypes.NewMsgInitiateTokenDeposit(user.String(), 1, "l2addr", big, nil)); r.Class != sim.OK {
					panic("deposit failed: " + r.ErrString())
				}
			}
		}
		// fund escrow through a real deposit
		total := uint64(0)
		for i, w := range ws {
			if i != 2 {
				total += w.Amount // leaf 2 brought its own deposit
			}
		}
		if r := l1.Deliver(ophosttypes.NewMsgInitiateTokenDeposit(user.String(), 1, "l2addr", sdk.NewCoin("uinit", math.NewIntFromUint64(total)), nil)); r.Class != sim.OK {
			panic("deposit failed: " + r.ErrString())
		}
		// the identifier a deposit announces is the documented derived denom, whatever the amount (an empty deposit
		// announces and registers it like any other) and whatever the L1 denom looks like
		for k, dn := range []string{"uinit", "uusdc", longDenomA, lookalikeDenom, fmt.Sprintf("ufresh%d", t)} {
			amt := []int64{0, 0, 1, 0, 0}[(k+t)%5]
			r := l1.Deliver(ophosttypes.NewMsgInitiateTokenDeposit(user.String(), 1, "l2addr", sdk.NewCoin(dn, math.NewInt(amt)), nil))
			run.Evaluations++
			if r.Class != sim.OK {
				continue
			}
			want := ref.L2Denom(1, dn)
			got := ""
			for _, ev := range r.EventsOfType(ophosttypes.EventTypeInitiateTokenDeposit) {
				got, _ = sim.Attr(ev, ophosttypes.AttributeKeyL2Denom)
			}
			tr := map[string]interface{}{"l1_denom": dn, "amount": amt}
			run.Check("handler.deposit_announces_documented_l2_denom", got == want, "c17.handler.deposit_l2_denom", tr, "deposit of %d %s announced l2_denom %q, the documented derivation gives %q", amt, dn, got, want)
			pr, err := l1.Q.TokenPairByL1Denom(l1.Ctx, &ophosttypes.QueryTokenPairByL1DenomRequest{BridgeId: 1, L1Denom: dn})
			run.Check("handler.deposit_announces_documented_l2_denom", err == nil && pr.TokenPair.L2Denom == want && pr.TokenPair.L1Denom == dn, "c17.handler.deposit_pair", tr, "after a deposit of %d %s the registered pair is %v (err %v), expected l2 denom %q", amt, dn, pr, err, want)
			run.Distinct(fmt.Sprintf("deposit-denom/%d/%d", k, amt))
		}
		out := env.ProposeTree(1, ws, ref.PadLast, rng)
		l1.NextBlock(env.Period(1) + 1e9)
		for i, w := range ws {
			base := out.Claim(i, user.String())
			verdicts := make([]sim.Class, nLayouts)
			for lay := 0; lay < nLayouts; lay++ {
				proof, ar := layProof(lay, base.WithdrawalProofs)
				m := *base
				m.WithdrawalProofs = proof
				ar.snapshot()
				br := l1.Branch()
				res := br.Deliver(&m)
				verdicts[lay] = res.Class
				run.Evaluations++
				intact := !ar.changed()
				for j := range proof {
					if !bytes.Equal(proof[j], base.WithdrawalProofs[j]) {
						intact = false
					}
				}
				tr := map[string]interface{}{"tree_size": nLeaves, "leaf": i, "layout": layoutNames[lay], "result": res.ErrString()}
				run.Check("purity.args_unchanged", intact, "c17.purity.handler_writes_proof", tr, "MsgFinalizeTokenWithdrawal handler modified the caller's proof bytes (layout %s)", layoutNames[lay])
			}
			// the handler's verdict follows the documented fold over all supplied elements: a valid path followed by
			// further elements folds to another root and must be refused
			if len(base.WithdrawalProofs) > 0 || true {
				for _, extra := range [][]byte{rand32(rng), make([]byte, 32), base.StorageRoot} {
					m := *base
					m.WithdrawalProofs = append(append([][]byte{}, base.WithdrawalProofs...), append([]byte(nil), extra...))
					leaf := ref.Leaf(m.BridgeId, m.Sequence, m.From, m.To, m.Amount.Denom, m.Amount.Amount.Uint64())
					want := ref.Root(leaf, m.WithdrawalProofs)
					res := l1.Branch().Deliver(&m)
					run.Evaluations++
					run.Check("handler.root_is_fold_over_all_elements", (res.Class == sim.OK) == bytes.Equal(want[:], m.StorageRoot), "c17.handler.trailing_elements_ignored",
						map[string]interface{}{"tree_size": nLeaves, "leaf": i, "proof_elements": len(m.WithdrawalProofs)}, "a claim whose proof carries one element more than the path (documented fold gives another root) was answered %s", res.Class)
				}
			}
			spelling := "lower-case"
			if w.To != user.String() {
				spelling = "upper-case"
			}
			run.Check("handler.leaf_commits_strings_verbatim", verdicts[0] == sim.OK, "c17.handler.leaf_not_verbatim", map[string]interface{}{"tree_size": nLeaves, "leaf": i, "to": w.To}, "a claim whose leaf is the documented hash over the given strings (%s receiver) is rejected", spelling)
			run.Distinct("handler/receiver/" + spelling)
			if len(base.WithdrawalProofs) >= 2 {
				same := true
				for lay := 1; lay < nLayouts; lay++ {
					if verdicts[lay] != verdicts[0] {
						same = false
					}
				}
				run.Check("handler.layout_independent", same && verdicts[0] == sim.OK, "c17.handler.layout_dependent",
					map[string]interface{}{"tree_size": nLeaves, "leaf": i, "verdicts": fmt.Sprint(verdicts)}, "the same valid claim is accepted/rejected depending on the memory layout of its proof list: %v", verdicts)
				run.Distinct(fmt.Sprintf("handler/size%d/pos%d", nLeaves, i))
			}
			if run.TooMany() {
				return
			}
		}
	}
}
