package props

import (
	"bytes"
	"fmt"
	"math"
	"time"

	"github.com/cosmos/cosmos-sdk/types/query"

	ophosttypes "github.com/initia-labs/OPinit/x/ophost/types"

	"verifharness/mon"
	"verifharness/ref"
	"verifharness/sim"
)

// ---- bounded-exhaustive part: every sequence of length <= depth over a small alphabet, against a sequential model ----

type c11Entry struct {
	l2     uint64
	root   [32]byte
	at     time.Time
	height int64
}

type c11Node struct {
	l1   *sim.L1
	log  []c11Entry // model of bridge 1's stored outputs, index i+1
	path []string
}

type c11DFS struct {
	run      *mon.Run
	period   time.Duration
	proposer sim.Account
	chall    sim.Account
	stranger sim.Account
	visited  map[string]struct{}
	nodes    int
	other    string // rendering of bridge 2's log, must never change
}

func c11Root(idx, l2 uint64, alt int) [32]byte {
	return ref.Sha3_256([]byte(fmt.Sprintf("c11/%d/%d/%d", idx, l2, alt)))
}

func (d *c11DFS) final(n *c11Node, e c11Entry) bool {
	return n.l1.Time().Unix() >= e.at.Add(d.period).Unix()
}

func c11ReadLog(l1 *sim.L1, bridge uint64) (idx []uint64, out []ophosttypes.Output) {
	var key []byte
	for {
		res, err := l1.Q.OutputProposals(l1.Ctx, &ophosttypes.QueryOutputProposalsRequest{BridgeId: bridge, Pagination: &query.PageRequest{Key: key, Limit: 2}})
		if err != nil {
			panic(err)
		}
		for _, o := range res.OutputProposals {
			idx = append(idx, o.OutputIndex)
			out = append(out, o.OutputProposal)
		}
		if res.Pagination == nil || len(res.Pagination.NextKey) == 0 {
			return
		}
		key = res.Pagination.NextKey
	}
}

// monitor compares everything observable about bridge 1's log with the model.
func (d *c11DFS) monitor(n *c11Node) {
	run := d.run
	idx, outs := c11ReadLog(n.l1, 1)
	ok := len(idx) == len(n.log)
	for i := 0; ok && i < len(idx); i++ {
		e := n.log[i]
		ok = idx[i] == uint64(i+1) && outs[i].L2BlockNumber == e.l2 && bytes.Equal(outs[i].OutputRoot, e.root[:]) && outs[i].L1BlockTime.Equal(e.at) && outs[i].L1BlockNumber == uint64(e.height)
	}
	run.Check("C11.exhaustive.log_equals_model", ok, "c11.dfs.log", n.path, "stored log (indices %v) differs from the sequential model (%d entries)", idx, len(n.log))
	next, err := n.l1.K.GetNextOutputIndex(n.l1.Ctx, 1)
	run.Check("C11.exhaustive.next_index", err == nil && next == uint64(len(n.log)+1), "c11.dfs.next", n.path, "next output index is %d with %d stored outputs", next, len(n.log))
	for i := range n.log {
		q, err := n.l1.Q.OutputProposal(n.l1.Ctx, &ophosttypes.QueryOutputProposalRequest{BridgeId: 1, OutputIndex: uint64(i + 1)})
		run.Check("C11.exhaustive.log_equals_model", err == nil && bytes.Equal(q.OutputProposal.OutputRoot, n.log[i].root[:]) && q.OutputProposal.L2BlockNumber == n.log[i].l2, "c11.dfs.single_query", n.path, "Query/OutputProposal(1,%d) disagrees with the model", i+1)
	}
	_, err = n.l1.Q.OutputProposal(n.l1.Ctx, &ophosttypes.QueryOutputProposalRequest{BridgeId: 1, OutputIndex: uint64(len(n.log) + 1)})
	run.Check("C11.exhaustive.log_equals_model", err != nil, "c11.dfs.ghost_at_next", n.path, "an output is stored at the next index %d", len(n.log)+1)
	// final outputs form a prefix, and the last finalized output is the end of that prefix
	lastFinal := 0
	prefix := true
	for i, e := range n.log {
		if d.final(n, e) {
			if lastFinal != i {
				prefix = false
			}
			lastFinal = i + 1
		}
	}
	run.Check("C11.exhaustive.final_prefix", prefix, "c11.dfs.final_prefix", n.path, "final outputs do not form a prefix of the log")
	lf, err := n.l1.Q.LastFinalizedOutput(n.l1.Ctx, &ophosttypes.QueryLastFinalizedOutputRequest{BridgeId: 1})
	run.Check("C11.exhaustive.last_finalized_query", err == nil && lf.OutputIndex == uint64(lastFinal), "c11.dfs.last_finalized", n.path, "Query/LastFinalizedOutput = %v, model says %d", lf, lastFinal)
	// the other bridge is untouched
	i2, o2 := c11ReadLog(n.l1, 2)
	run.Check("C11.exhaustive.other_bridge_untouched", fmt.Sprint(i2, o2) == d.other, "c11.dfs.other_bridge", n.path, "bridge 2's log changed")
}

func (d *c11DFS) fork(n *c11Node, step string) *c11Node {
	return &c11Node{l1: n.l1.Branch(), log: append([]c11Entry(nil), n.log...), path: append(append([]string(nil), n.path...), step)}
}

func (d *c11DFS) explore(n *c11Node, depth int) {
	if d.run.TooMany() {
		return
	}
	key := fmt.Sprintf("%s|%d|%d|%d", sim.Digest(n.l1.Dump(ophosttypes.StoreKey)), n.l1.Time().UnixNano(), n.l1.Ctx.BlockHeight(), depth)
	if _, seen := d.visited[key]; seen {
		return
	}
	d.visited[key] = struct{}{}
	d.nodes++
	d.run.State(key[:48])
	d.monitor(n)
	if depth == 0 {
		return
	}
	run := d.run
	next := uint64(len(n.log) + 1)
	var last uint64
	if len(n.log) > 0 {
		last = n.log[len(n.log)-1].l2
	}
	// propose: index in {next-1, next, next+1} x L2 block in {last-1, last, last+1, last+7} x two roots x signer
	for _, idx := range []uint64{next - 1, next, next + 1} {
		for _, l2 := range []uint64{last - 1, last, last + 1, last + 7, math.MaxUint64} {
			if last == 0 && l2 > last+7 && l2 != math.MaxUint64 {
				continue // wrapped
			}
			if l2 == math.MaxUint64 && (idx != next || len(n.log) > 2) {
				continue // the largest block number is offered at the next index of short logs only (bounds the fan-out)
			}
			for alt := 0; alt < 2; alt++ {
				for _, who := range []sim.Account{d.proposer, d.chall} {
					if who.Name == d.chall.Name && (alt == 1 || idx != next) {
						continue
					}
					root := c11Root(idx, l2, alt)
					if idx >= 1 && idx <= uint64(len(n.log)) && alt == 0 && l2 == n.log[idx-1].l2 {
						root = n.log[idx-1].root // byte-identical re-submission of what is stored there
					}
					if idx == next && len(n.log) > 0 && l2 == last && alt == 1 {
						root = n.log[len(n.log)-1].root // the predecessor's block number AND its root, offered as the next output
					}
					c := d.fork(n, "")
					res := c.l1.Deliver(ophosttypes.NewMsgProposeOutput(who.String(), 1, idx, l2, root[:]))
					run.Evaluations++
					expect := who.Name == d.proposer.Name && idx == next && (len(n.log) == 0 || l2 > last)
					c.path[len(c.path)-1] = fmt.Sprintf("propose(idx=%d l2=%d root=%x.. by=%s) -> %s [next=%d last_l2=%d]", idx, l2, root[:3], who.Name, res.Class, next, last)
					if !run.Check("C11.exhaustive.propose_decision", (res.Class == sim.OK) == expect, "c11.dfs.propose_decision", c.path, "proposal decision differs from the model (expected accept=%v): %s", expect, res.ErrString()) {
						continue
					}
					if res.Class == sim.OK {
						c.log = append(c.log, c11Entry{l2, root, c.l1.Time(), c.l1.Ctx.BlockHeight()})
						run.Distinct(fmt.Sprintf("C11/dfs/propose/len%d", len(n.log)))
					}
					d.explore(c, depth-1)
				}
			}
		}
	}
	// delete index i in 0..next (next itself and 0 are out of range)
	for i := uint64(0); i <= next; i++ {
		for _, who := range []sim.Account{d.chall, d.stranger} {
			if who.Name == d.stranger.Name && i != 1 {
				continue
			}
			c := d.fork(n, "")
			res := c.l1.Deliver(ophosttypes.NewMsgDeleteOutput(who.String(), 1, i))
			run.Evaluations++
			expect := who.Name == d.chall.Name && i >= 1 && i < next
			if expect {
				for _, e := range n.log[i-1:] {
					if d.final(n, e) {
						expect = false
					}
				}
			}
			c.path[len(c.path)-1] = fmt.Sprintf("delete(%d by=%s) -> %s [next=%d]", i, who.Name, res.Class, next)
			if !run.Check("C11.exhaustive.delete_decision", (res.Class == sim.OK) == expect, "c11.dfs.delete_decision", c.path, "deletion decision differs from the model (expected accept=%v): %s", expect, res.ErrString()) {
				continue
			}
			if res.Class == sim.OK {
				c.log = c.log[:i-1]
				run.Distinct(fmt.Sprintf("C11/dfs/delete/%d of %d", i, len(n.log)))
			}
			d.explore(c, depth-1)
		}
	}
	for _, dt := range []time.Duration{0, time.Second, d.period - time.Second, d.period} {
		c := d.fork(n, fmt.Sprintf("next block +%s", dt))
		c.l1.NextBlock(dt)
		d.explore(c, depth-1)
	}
}

// c11LongSuffix: deletion removes the whole pending suffix however long it is (and nothing if any of it is final).
func c11LongSuffix(run *mon.Run) {
	run.Declare("C11.long_suffix_deleted_entirely", 4)
	for _, n := range []int{65, 70, 130, 257} {
		for _, finalPrefix := range []int{0, 3} {
			period := 50 * time.Second
			env := newL1EnvAt(1, []time.Duration{period}, time.Unix(1_700_000_000, 0).UTC())
			roles := env.Bridges[1]
			for i := 1; i <= n; i++ {
				if i == finalPrefix+1 && finalPrefix > 0 {
					env.L1.NextBlock(period + time.Second) // outputs 1..finalPrefix are final from here on
				}
				r := c11Root(uint64(i), uint64(i*10), 0)
				if res := env.L1.Deliver(ophosttypes.NewMsgProposeOutput(roles.Proposer.String(), 1, uint64(i), uint64(i*10), r[:])); res.Class != sim.OK {
					panic(res.ErrString())
				}
			}
			from := uint64(finalPrefix + 1)
			if finalPrefix == 0 {
				from = 2
			}
			res := env.L1.Deliver(ophosttypes.NewMsgDeleteOutput(roles.Challenger.String(), 1, from))
			idx, _ := c11ReadLog(env.L1, 1)
			next, _ := env.L1.K.GetNextOutputIndex(env.L1.Ctx, 1)
			run.Evaluations++
			ok := res.Class == sim.OK && next == from && uint64(len(idx)) == from-1
			for i, x := range idx {
				ok = ok && x == uint64(i+1)
			}
			tr := []string{fmt.Sprintf("%d outputs proposed (the first %d final); delete from %d -> %s %s; next index %d, %d outputs stored", n, finalPrefix, from, res.Class, res.ErrString(), next, len(idx))}
			run.Check("C11.long_suffix_deleted_entirely", ok, "c11.long_suffix", tr, "deleting the %d pending outputs from index %d left %d outputs stored and next index %d", n-int(from)+1, from, len(idx), next)
			if finalPrefix > 0 {
				// a range that starts inside the final prefix is refused as a whole
				r2 := env.L1.Deliver(ophosttypes.NewMsgDeleteOutput(roles.Challenger.String(), 1, 1))
				run.Check("C11.long_suffix_deleted_entirely", r2.Class != sim.OK, "c11.final_output_deleted_by_long_range", append(tr, fmt.Sprintf("then delete from 1 -> %s", r2.Class)), "a deletion starting at a final output was accepted")
			}
			run.Distinct(fmt.Sprintf("C11/longsuffix/%d/%d", n, finalPrefix))
		}
	}
}

func c11Exhaustive(run *mon.Run, depth int) {
	for _, c := range []string{"C11.exhaustive.log_equals_model", "C11.exhaustive.next_index", "C11.exhaustive.final_prefix", "C11.exhaustive.last_finalized_query", "C11.exhaustive.propose_decision", "C11.exhaustive.delete_decision", "C11.exhaustive.other_bridge_untouched"} {
		run.Declare(c, 50)
	}
	period := 3 * time.Second
	env := newL1EnvAt(2, []time.Duration{period, period}, time.Unix(1_700_000_000, 0).UTC())
	r2 := c11Root(1, 5, 9)
	if res := env.L1.Deliver(ophosttypes.NewMsgProposeOutput(env.Bridges[2].Proposer.String(), 2, 1, 5, r2[:])); res.Class != sim.OK {
		panic(res.ErrString())
	}
	d := &c11DFS{run: run, period: period, proposer: env.Bridges[1].Proposer, chall: env.Bridges[1].Challenger, stranger: env.Users[3], visited: map[string]struct{}{}}
	i2, o2 := c11ReadLog(env.L1, 2)
	d.other = fmt.Sprint(i2, o2)
	d.explore(&c11Node{l1: env.L1}, depth)
	run.Extra["exhaustive_depth"] = depth
	run.Extra["exhaustive_nodes"] = d.nodes
}

func init() { register("C11", "exploration", checkC11) }

func checkC11(run *mon.Run, rng *mon.Rand, thorough bool) {
	run.Rule = "(a) bounded-exhaustive: every operation sequence up to depth 5 (quick) / 6 (thorough) over {propose at next-1/next/next+1 with L2 block last-1/last/last+1/last+7/2^64-1 (arithmetic wraps), fresh or byte-identical root, by proposer or challenger; delete 0..next by challenger or a stranger; next block +0/+1s/+period-1s/+period} on copy-on-write branches with state-digest memoisation, every accept/reject decision and the complete observable log (paginated list, single queries, next index, last finalized output) compared with a sequential model after every step; (b) seeded random histories of propose / delete / re-propose with indices in {next-1,next,next+1}, L2 blocks around the last one, all roles, over 2-3 bridges with different periods and boundary-aligned block times; the structural invariant of the stored log is read through the paginated query after every step. Distinct non-trivial = (operation, log length, final-prefix length / deletion index) pairs"
	run.Assumptions = []string{"the output log is observed only through Query/OutputProposals (all pages), Query/LastFinalizedOutput and GetNextOutputIndex"}
	for _, c := range []string{"C11.contiguous", "C11.l2_blocks_increase", "C11.l1_times_monotone", "C11.log_matches_model", "C11.final_prefix", "C11.propose_only_at_next", "C11.propose_higher_l2_block", "C11.delete_sets_next"} {
		run.Declare(c, 10)
	}
	c11LongSuffix(run)
	c11GenesisCounters(run)
	c11Exhaustive(run, pick(thorough, 5, 6))
	hist := pick(thorough, 24, 300)
	steps := pick(thorough, 250, 500)
	for h := 0; h < hist && !run.TooMany(); h++ {
		r := rng.Split()
		cfg := WorldCfg{Bridges: 2 + r.Intn(2), Steps: steps, Periods: []time.Duration{3 * time.Second, 20 * time.Second, time.Hour, 1500 * time.Millisecond},
			StartTime: sim.GenesisTime.Add(time.Duration(r.Intn(1_000_000_000))), TimeSteps: []time.Duration{1, 999_999_999, 500 * time.Millisecond},
			Weights: map[string]int{"propose": 40, "delete": 25, "advance": 20, "role": 5, "deposit": 3, "finalize": 5, "create": 1}}
		w := newL1World(run, r, MonSet{C11: true}, cfg)
		w.Run()
		if h == 0 {
			n := len(w.log)
			if n > 20 {
				n = 20
			}
			run.Sample(map[string]interface{}{"history": 0, "first_steps": w.log[:n]})
		}
	}
	run.Extra["histories"] = hist
}

// c11GenesisCounters: a bridge imported from a genesis document whose next output index is 0 / 1 / unset and whose log is
// empty: whatever is proposed afterwards, the stored outputs occupy exactly 1..next-1 (nothing is ever stored at index 0).
func c11GenesisCounters(run *mon.Run) {
	run.Declare("C11.imported_counter_keeps_log_contiguous", 2)
	for _, nextIdx := range []uint64{0, 1} {
		src := newL1Env(1, []time.Duration{10 * time.Second})
		gs := src.L1.K.ExportGenesis(src.L1.Ctx)
		gs.Bridges[0].NextOutputIndex = nextIdx
		if err := ophosttypes.ValidateGenesis(gs, src.L1.AK.AddressCodec()); err != nil {
			run.Count("C11.genesis_counter_refused_by_validation")
			continue
		}
		dst := sim.NewL1(sim.L1Opts{})
		dst.AK.InitGenesis(dst.Ctx, *src.L1.AK.ExportGenesis(src.L1.Ctx))
		dst.BK.InitGenesis(dst.Ctx, src.L1.BK.ExportGenesis(src.L1.Ctx))
		refused := func() (refused bool) {
			defer func() {
				if r := recover(); r != nil {
					refused = true
				}
			}()
			dst.K.InitGenesis(dst.Ctx, gs)
			return false
		}()
		if refused {
			run.Count("C11.genesis_counter_refused_by_import")
			continue
		}
		proposer := src.Bridges[1].Proposer.String()
		var tr []string
		for step, idx := range []uint64{0, 0, 1, 0, 2, 1, 3} {
			r := c11Root(idx, uint64(100+step), 0)
			res := dst.Deliver(ophosttypes.NewMsgProposeOutput(proposer, 1, idx, uint64(100+step), r[:]))
			run.Evaluations++
			ids, _ := c11ReadLog(dst, 1)
			next, _ := dst.K.GetNextOutputIndex(dst.Ctx, 1)
			tr = append(tr, fmt.Sprintf("imported next index %d; propose(idx=%d) -> %s %s; stored indices %v next %d", nextIdx, idx, res.Class, res.ErrString(), ids, next))
			ok := true
			for i, x := range ids {
				ok = ok && x == uint64(i+1)
			}
			// with an imported counter of 0 the log is empty and stays so until something is accepted; from then on 1..next-1
			ok = ok && (uint64(len(ids))+1 == next || (len(ids) == 0 && next <= 1))
			if !run.Check("C11.imported_counter_keeps_log_contiguous", ok, "c11.imported_counter_log", tr, "after importing next output index %d: stored output indices %v with next index %d do not occupy exactly 1..next-1", nextIdx, ids, next) {
				break
			}
		}
		run.Distinct(fmt.Sprintf("C11/genesis-counter/%d", nextIdx))
	}
}
