package props

import (
	"time"

	"verifharness/mon"
	"verifharness/sim"
)

func init() { register("C11", "exploration", checkC11) }

func checkC11(run *mon.Run, rng *mon.Rand, thorough bool) {
	run.Rule = "seeded random histories of propose / delete / re-propose with indices in {next-1,next,next+1}, L2 blocks around the last one, all roles, over 2-3 bridges with different periods and boundary-aligned block times; the structural invariant of the stored log is read through the paginated query after every step. Distinct non-trivial = (operation, log length, final-prefix length / deletion index) pairs"
	run.Assumptions = []string{"the output log is observed only through Query/OutputProposals (all pages), Query/LastFinalizedOutput and GetNextOutputIndex"}
	for _, c := range []string{"C11.contiguous", "C11.l2_blocks_increase", "C11.l1_times_monotone", "C11.log_matches_model", "C11.final_prefix", "C11.propose_only_at_next", "C11.propose_higher_l2_block", "C11.delete_sets_next"} {
		run.Declare(c, 10)
	}
	hist := pick(thorough, 24, 300)
	steps := pick(thorough, 250, 500)
	for h := 0; h < hist && !run.TooMany(); h++ {
		r := rng.Split()
		cfg := WorldCfg{Bridges: 2 + r.Intn(2), Steps: steps, Periods: []time.Duration{3 * time.Second, 20 * time.Second, time.Hour, 1500 * time.Millisecond},
			StartTime: sim.GenesisTime.Add(time.Duration(r.Intn(1_000_000_000))), TimeSteps: []time.Duration{1, 999_999_999, 500 * time.Millisecond},
			Weights: map[string]int{"propose": 40, "delete": 25, "advance": 20, "role": 5, "deposit": 3, "finalize": 5, "create": 1}}
		w := newL1World(run, r, MonSet{C11: true}, cfg)
		w.Run()
		if h == 0 {
			n := len(w.log)
			if n > 20 {
				n = 20
			}
			run.Sample(map[string]interface{}{"history": 0, "first_steps": w.log[:n]})
		}
	}
	run.Extra["histories"] = hist
}
