package props

import (
	"bytes"
	"fmt"
	"github.com/cosmos/cosmos-sdk/types/query"
	"strings"
	"time"

	"cosmossdk.io/math"
	sdk "github.com/cosmos/cosmos-sdk/types"
	banktypes "github.com/cosmos/cosmos-sdk/x/bank/types"

	ophosttypes "github.com/initia-labs/OPinit/x/ophost/types"

	"verifharness/mon"
	"verifharness/ref"
	"verifharness/sim"
)

func init() { register("C03", "exploration", checkC03) }

func cloneClaim(m *ophosttypes.MsgFinalizeTokenWithdrawal) *ophosttypes.MsgFinalizeTokenWithdrawal {
	c := *m
	c.WithdrawalProofs = make([][]byte, len(m.WithdrawalProofs))
	for i, p := range m.WithdrawalProofs {
		c.WithdrawalProofs[i] = append([]byte(nil), p...)
	}
	c.Version = append([]byte(nil), m.Version...)
	c.StorageRoot = append([]byte(nil), m.StorageRoot...)
	c.LastBlockHash = append([]byte(nil), m.LastBlockHash...)
	return &c
}

type perturbation struct {
	kind  string
	apply func(m *ophosttypes.MsgFinalizeTokenWithdrawal)
}

// c03Ctx describes the other material available to an attacker on the same state.
type c03Ctx struct {
	otherOutputs []uint64 // other output indices on the same bridge (other tree, not-final, non-existent)
	otherProof   [][]byte // a proof of a different leaf of the same tree
	otherAddr    string
	inner        [][32]byte
}

func singlePerturbations(m *ophosttypes.MsgFinalizeTokenWithdrawal, cx c03Ctx) []perturbation {
	var ps []perturbation
	for bit := 0; bit < 8; bit++ {
		b := bit
		ps = append(ps, perturbation{"version.bit", func(m *ophosttypes.MsgFinalizeTokenWithdrawal) { m.Version[0] ^= 1 << uint(b) }})
	}
	for i := 0; i < 32; i++ {
		i := i
		ps = append(ps, perturbation{"storage_root.bit", func(m *ophosttypes.MsgFinalizeTokenWithdrawal) { m.StorageRoot[i] ^= 1 << uint(i%8) }})
		ps = append(ps, perturbation{"block_hash.bit", func(m *ophosttypes.MsgFinalizeTokenWithdrawal) { m.LastBlockHash[i] ^= 1 << uint((i+3)%8) }})
	}
	for e := range m.WithdrawalProofs {
		for i := 0; i < 32; i++ {
			e, i := e, i
			ps = append(ps, perturbation{"proof.bit", func(m *ophosttypes.MsgFinalizeTokenWithdrawal) { m.WithdrawalProofs[e][i] ^= 1 << uint((i+e)%8) }})
		}
	}
	for e := range m.WithdrawalProofs {
		e := e
		ps = append(ps,
			perturbation{"proof.elem.trailing_byte", func(m *ophosttypes.MsgFinalizeTokenWithdrawal) {
				m.WithdrawalProofs[e] = append(m.WithdrawalProofs[e], 0x00)
			}},
			perturbation{"proof.elem.trailing_32", func(m *ophosttypes.MsgFinalizeTokenWithdrawal) {
				m.WithdrawalProofs[e] = append(m.WithdrawalProofs[e], bytes.Repeat([]byte{0xab}, 32)...)
			}},
			perturbation{"proof.elem.short", func(m *ophosttypes.MsgFinalizeTokenWithdrawal) { m.WithdrawalProofs[e] = m.WithdrawalProofs[e][:31] }},
		)
	}
	ps = append(ps,
		perturbation{"storage_root.trailing_byte", func(m *ophosttypes.MsgFinalizeTokenWithdrawal) { m.StorageRoot = append(m.StorageRoot, 0) }},
		perturbation{"block_hash.trailing_byte", func(m *ophosttypes.MsgFinalizeTokenWithdrawal) { m.LastBlockHash = append(m.LastBlockHash, 0) }},
		perturbation{"version.two_bytes", func(m *ophosttypes.MsgFinalizeTokenWithdrawal) { m.Version = append(m.Version, 0) }},
		// a field dropped altogether (absent on the wire) or cut short
		perturbation{"storage_root.empty", func(m *ophosttypes.MsgFinalizeTokenWithdrawal) { m.StorageRoot = nil }},
		perturbation{"storage_root.31_bytes", func(m *ophosttypes.MsgFinalizeTokenWithdrawal) { m.StorageRoot = m.StorageRoot[:31] }},
		perturbation{"block_hash.empty", func(m *ophosttypes.MsgFinalizeTokenWithdrawal) { m.LastBlockHash = nil }},
		perturbation{"block_hash.31_bytes", func(m *ophosttypes.MsgFinalizeTokenWithdrawal) { m.LastBlockHash = m.LastBlockHash[:31] }},
		perturbation{"version.empty", func(m *ophosttypes.MsgFinalizeTokenWithdrawal) { m.Version = nil }},
		perturbation{"from.empty", func(m *ophosttypes.MsgFinalizeTokenWithdrawal) { m.From = "" }},
		perturbation{"sequence.zero", func(m *ophosttypes.MsgFinalizeTokenWithdrawal) { m.Sequence = 0 }},
		perturbation{"storage_root.short", func(m *ophosttypes.MsgFinalizeTokenWithdrawal) { m.StorageRoot = m.StorageRoot[:31] }},
		perturbation{"amount+2*2^64", func(m *ophosttypes.MsgFinalizeTokenWithdrawal) {
			m.Amount.Amount = m.Amount.Amount.Add(math.NewIntFromUint64(1 << 63).MulRaw(4))
		}},
		perturbation{"sequence+1", func(m *ophosttypes.MsgFinalizeTokenWithdrawal) { m.Sequence++ }},
		perturbation{"sequence-1", func(m *ophosttypes.MsgFinalizeTokenWithdrawal) { m.Sequence-- }},
		perturbation{"sequence.highbit", func(m *ophosttypes.MsgFinalizeTokenWithdrawal) { m.Sequence ^= 1 << 63 }},
		perturbation{"amount+1", func(m *ophosttypes.MsgFinalizeTokenWithdrawal) { m.Amount.Amount = m.Amount.Amount.AddRaw(1) }},
		perturbation{"amount-1", func(m *ophosttypes.MsgFinalizeTokenWithdrawal) { m.Amount.Amount = m.Amount.Amount.SubRaw(1) }},
		perturbation{"amount*2", func(m *ophosttypes.MsgFinalizeTokenWithdrawal) { m.Amount.Amount = m.Amount.Amount.MulRaw(2) }},
		perturbation{"amount.highbit", func(m *ophosttypes.MsgFinalizeTokenWithdrawal) {
			m.Amount.Amount = m.Amount.Amount.Add(math.NewIntFromUint64(1 << 63))
		}},
		perturbation{"amount+2^64", func(m *ophosttypes.MsgFinalizeTokenWithdrawal) {
			m.Amount.Amount = m.Amount.Amount.Add(math.NewIntFromUint64(1 << 63).MulRaw(2))
		}},
		perturbation{"bridge_id.other", func(m *ophosttypes.MsgFinalizeTokenWithdrawal) { m.BridgeId = 2 }},
		perturbation{"from<->to", func(m *ophosttypes.MsgFinalizeTokenWithdrawal) { m.From, m.To = m.To, m.From }},
		perturbation{"from.changed", func(m *ophosttypes.MsgFinalizeTokenWithdrawal) { m.From += "x" }},
		perturbation{"to.changed", func(m *ophosttypes.MsgFinalizeTokenWithdrawal) { m.To = cx.otherAddr }},
		perturbation{"to.uppercase_spelling", func(m *ophosttypes.MsgFinalizeTokenWithdrawal) { m.To = strings.ToUpper(m.To) }},
		perturbation{"from.uppercase_spelling", func(m *ophosttypes.MsgFinalizeTokenWithdrawal) { m.From = strings.ToUpper(m.From) }},
		perturbation{"denom.uppercase", func(m *ophosttypes.MsgFinalizeTokenWithdrawal) { m.Amount.Denom = "UINIT" }},
		perturbation{"from=to.concat", func(m *ophosttypes.MsgFinalizeTokenWithdrawal) { m.From = m.From + m.To }},
		perturbation{"denom.changed", func(m *ophosttypes.MsgFinalizeTokenWithdrawal) { m.Amount.Denom = "uusdc" }},
		perturbation{"denom.its_l2_name", func(m *ophosttypes.MsgFinalizeTokenWithdrawal) {
			m.Amount.Denom = ref.L2Denom(m.BridgeId, m.Amount.Denom) // registered as a token pair of this bridge by the deposits
		}},
		perturbation{"proof.empty", func(m *ophosttypes.MsgFinalizeTokenWithdrawal) { m.WithdrawalProofs = nil }},
		perturbation{"proof.extended.random", func(m *ophosttypes.MsgFinalizeTokenWithdrawal) {
			m.WithdrawalProofs = append(m.WithdrawalProofs, bytes.Repeat([]byte{0x5a}, 32))
		}},
		// distinguished node values an implementation might treat as padding / "empty": all-zero, all-ones, the leaf itself
		perturbation{"proof.extended.zero_node", func(m *ophosttypes.MsgFinalizeTokenWithdrawal) {
			m.WithdrawalProofs = append(m.WithdrawalProofs, make([]byte, 32))
		}},
		perturbation{"proof.prepended.zero_node", func(m *ophosttypes.MsgFinalizeTokenWithdrawal) {
			m.WithdrawalProofs = append([][]byte{make([]byte, 32)}, m.WithdrawalProofs...)
		}},
		perturbation{"proof.zero_nodes_interleaved", func(m *ophosttypes.MsgFinalizeTokenWithdrawal) {
			var out [][]byte
			for _, p := range m.WithdrawalProofs {
				out = append(out, make([]byte, 32), p)
			}
			m.WithdrawalProofs = append(out, make([]byte, 32))
		}},
		perturbation{"proof.extended.ones_node", func(m *ophosttypes.MsgFinalizeTokenWithdrawal) {
			m.WithdrawalProofs = append(m.WithdrawalProofs, bytes.Repeat([]byte{0xff}, 32))
		}},
		perturbation{"proof.extended.own_leaf", func(m *ophosttypes.MsgFinalizeTokenWithdrawal) {
			if m.Amount.Amount.IsUint64() {
				l := ref.Leaf(m.BridgeId, m.Sequence, m.From, m.To, m.Amount.Denom, m.Amount.Amount.Uint64())
				m.WithdrawalProofs = append(m.WithdrawalProofs, l[:])
			}
		}},
		perturbation{"proof.other_leaf", func(m *ophosttypes.MsgFinalizeTokenWithdrawal) {
			m.WithdrawalProofs = nil
			for _, p := range cx.otherProof {
				m.WithdrawalProofs = append(m.WithdrawalProofs, append([]byte(nil), p...))
			}
		}},
	)
	for _, oi := range cx.otherOutputs {
		oi := oi
		ps = append(ps, perturbation{fmt.Sprintf("output_index=%d", oi), func(m *ophosttypes.MsgFinalizeTokenWithdrawal) { m.OutputIndex = oi }})
	}
	n := len(m.WithdrawalProofs)
	for k := 1; k <= n; k++ {
		k := k
		ps = append(ps, perturbation{"proof.truncated.tail", func(m *ophosttypes.MsgFinalizeTokenWithdrawal) {
			m.WithdrawalProofs = m.WithdrawalProofs[:len(m.WithdrawalProofs)-k]
		}})
		ps = append(ps, perturbation{"proof.truncated.head", func(m *ophosttypes.MsgFinalizeTokenWithdrawal) { m.WithdrawalProofs = m.WithdrawalProofs[k:] }})
	}
	if n > 0 {
		ps = append(ps, perturbation{"proof.extended.dup_last", func(m *ophosttypes.MsgFinalizeTokenWithdrawal) {
			m.WithdrawalProofs = append(m.WithdrawalProofs, append([]byte(nil), m.WithdrawalProofs[len(m.WithdrawalProofs)-1]...))
		}})
	}
	for i := 0; i+1 < n; i++ {
		i := i
		ps = append(ps, perturbation{"proof.swap_adjacent", func(m *ophosttypes.MsgFinalizeTokenWithdrawal) {
			m.WithdrawalProofs[i], m.WithdrawalProofs[i+1] = m.WithdrawalProofs[i+1], m.WithdrawalProofs[i]
		}})
	}
	// an inner node offered where a sibling is expected
	for i, in := range cx.inner {
		if i >= 3 {
			break
		}
		in := in
		if n > 0 {
			ps = append(ps, perturbation{"proof.inner_node_as_sibling", func(m *ophosttypes.MsgFinalizeTokenWithdrawal) { m.WithdrawalProofs[0] = append([]byte(nil), in[:]...) }})
		}
	}
	return ps
}

// refVerify: is the claim committed by the output currently stored at its index?
func refVerify(l1 *sim.L1, m *ophosttypes.MsgFinalizeTokenWithdrawal) (exists, rootOK, proofOK bool) {
	if !m.Amount.Amount.IsUint64() || len(m.Version) != 1 || len(m.StorageRoot) != 32 || len(m.LastBlockHash) != 32 {
		return
	}
	for _, p := range m.WithdrawalProofs {
		if len(p) != 32 {
			return // proof elements are 32-byte node hashes
		}
	}
	// what the store holds at that index is read by iteration over the stored outputs, not through the per-key getter
	// the handler itself uses
	stored := storedOutputRoot(l1, m.BridgeId, m.OutputIndex)
	if stored == nil {
		return
	}
	exists = true
	or := ref.OutputRoot(m.Version[0], m.StorageRoot, m.LastBlockHash)
	rootOK = bytes.Equal(or[:], stored)
	leaf := ref.Leaf(m.BridgeId, m.Sequence, m.From, m.To, m.Amount.Denom, m.Amount.Amount.Uint64())
	r := ref.Root(leaf, m.WithdrawalProofs)
	proofOK = bytes.Equal(r[:], m.StorageRoot)
	return
}

// storedOutputRoot returns the root stored at (bridge, index) as the paginated list query shows it, or nil.
func storedOutputRoot(l1 *sim.L1, bridge, index uint64) []byte {
	var key []byte
	for {
		res, err := l1.Q.OutputProposals(l1.Ctx, &ophosttypes.QueryOutputProposalsRequest{BridgeId: bridge, Pagination: &query.PageRequest{Key: key, Limit: 50}})
		if err != nil {
			panic(err)
		}
		for _, o := range res.OutputProposals {
			if o.OutputIndex == index {
				return o.OutputProposal.OutputRoot
			}
		}
		if res.Pagination == nil || len(res.Pagination.NextKey) == 0 {
			return nil
		}
		key = res.Pagination.NextKey
	}
}

func checkC03(run *mon.Run, rng *mon.Rand, thorough bool) {
	run.Rule = "for every tree size 1..N (N=17 quick, 40 thorough), both tree shapes and every leaf position: the valid claim (positive control, must be accepted) and every single-field perturbation of it (each bit position of version/roots/proof elements, sequence/amount arithmetic, other bridge id, other output indices incl. other tree / not-yet-final / missing, swapped and concatenated addresses, truncated/extended/swapped/foreign proofs, inner nodes as siblings) plus random multi-field mixes, each delivered on a copy-on-write branch in three oracle states (final, not yet final, already paid). Soundness oracle: an accepted claim must re-verify with the independent implementation against the output stored at that index. Distinct non-trivial = (tree size, position, perturbation kind, state) rejected while the control was accepted"
	run.Assumptions = []string{"hash collisions are not searched for", "'no effect' of a rejected message is baseapp's rollback and is not asserted"}
	for _, c := range []string{"C03.control_accepted", "C03.accepted_claim_is_committed", "C03.perturbed_claim_rejected", "C03.rejected_claim_leaves_no_trace", "C03.not_final_rejected", "C03.paid_rejected"} {
		run.Declare(c, 20)
	}
	maxN := pick(thorough, 17, 40)
	period := 10 * time.Second
	kinds := map[string]int{}
	for n := 1; n <= maxN && !run.TooMany(); n++ {
		for shape := 0; shape < 2; shape++ {
			env := newL1Env(2, []time.Duration{period, period})
			if shape == 1 && n%2 == 0 {
				env.EnableShadow(uint64(n)) // other transactions run on discarded branches before every claim
			}
			user := env.Users[1]
			for _, b := range []uint64{1, 2} {
				if r := env.Deposit(env.Users[0], b, "l2", "uinit", math.NewInt(500_000_000), nil); r.Class != sim.OK {
					panic(r.ErrString())
				}
			}
			// the escrow also holds more than 2^64 units (third-party transfer), so that amount forgeries are payable
			whale := sim.NewAccount("c03whale")
			huge := math.NewIntFromUint64(1 << 63).MulRaw(64)
			env.L1.Fund(whale.Addr, sdk.NewCoin("uinit", huge))
			if r := env.L1.Deliver(banktypes.NewMsgSend(whale.Addr, ophosttypes.BridgeAddress(1), sdk.NewCoins(sdk.NewCoin("uinit", huge)))); r.Class != sim.OK {
				panic(r.ErrString())
			}
			mk := func(bridge uint64, base int, cnt int) []Withdrawal {
				ws := make([]Withdrawal, cnt)
				for i := range ws {
					ws[i] = Withdrawal{BridgeID: bridge, Seq: uint64(base + i), From: fmt.Sprintf("l2user%d", i%4), To: env.Users[2+i%3].String(), Denom: "uinit", Amount: uint64(1000 + i)}
				}
				return ws
			}
			wsA := mk(1, 1, n)
			outA := env.ProposeTree(1, wsA, ref.TreeShape(shape), rng)
			outB := env.ProposeTree(1, mk(1, 100, 3), ref.TreeShape(shape), rng) // other tree, same bridge
			// same identities committed on bridge 2
			ws2 := mk(2, 1, n)
			env.ProposeTree(2, ws2, ref.TreeShape(shape), rng)
			env.L1.NextBlock(period + time.Second)            // A, B final
			outC := env.ProposeTree(1, mk(1, 200, 2), 0, rng) // not yet final
			cx := c03Ctx{otherOutputs: []uint64{outB.Index, outC.Index, outC.Index + 1, 0}, otherAddr: env.Users[7].String(), inner: outA.Tree.InnerNodes()}

			for pos := 0; pos < n && !run.TooMany(); pos++ {
				control := outA.Claim(pos, user.String())
				cx.otherProof = outA.Tree.Proof((pos + 1) % n)
				// state 1: final, unpaid
				br := env.L1.Branch()
				ce, cr, cp := refVerify(br, control)
				res := br.Deliver(cloneClaim(control))
				run.Evaluations++
				if res.Class == sim.OK {
					run.Check("C03.accepted_claim_is_committed", ce && cr && cp, "c03.control_not_committed", nil, "harness self-check: control claim does not verify by the reference")
				}
				if !run.Check("C03.control_accepted", res.Class == sim.OK, "c03.control_rejected", []string{fmt.Sprintf("tree size %d shape %d pos %d: %s", n, shape, pos, res.ErrString())}, "valid claim rejected: %s", res.ErrString()) {
					continue
				}
				perts := singlePerturbations(control, cx)
				// random multi-field mixes
				for k := 0; k < 6; k++ {
					a, b := mon.Pick(rng, perts), mon.Pick(rng, perts)
					perts = append(perts, perturbation{"multi:" + a.kind + "+" + b.kind, func(m *ophosttypes.MsgFinalizeTokenWithdrawal) {
						defer func() { _ = recover() }() // two structural edits may not compose (e.g. truncate + index)
						a.apply(m)
						b.apply(m)
					}})
				}
				for _, p := range perts {
					m := cloneClaim(control)
					p.apply(m)
					sub := env.Users[rng.Intn(len(env.Users))]
					m.Sender = sub.String()
					b2 := env.L1.Branch()
					exists, rootOK, proofOK := refVerify(b2, m)
					r, left := b2.DeliverInspect(m)
					run.Evaluations++
					tr := []string{fmt.Sprintf("tree size %d shape %d position %d perturbation %q -> %s %s (ref: exists=%v root=%v proof=%v)", n, shape, pos, p.kind, r.Class, r.ErrString(), exists, rootOK, proofOK)}
					if r.Class != sim.OK && !(exists && rootOK && proofOK) {
						// "fails with no effect": a claim that does not verify is refused before the handler writes anything —
						// looked at in the handler's own branch, before the harness (as a transaction would) throws it away
						run.Check("C03.rejected_claim_leaves_no_trace", len(left) == 0, "c03.rejected_claim_wrote_state", append(tr, left...), "a claim that does not verify (%s) was rejected after its handler had written %d store entries (first: %s)", p.kind, len(left), firstOf(left))
					}
					if r.Class == sim.OK {
						run.Check("C03.accepted_claim_is_committed", exists && rootOK && proofOK, "c03.forged_claim_accepted", tr, "perturbed claim (%s) accepted although it does not verify against the stored output", p.kind)
						kinds["accepted:"+p.kind]++
					} else {
						if !(exists && rootOK && proofOK) {
							run.Hit("C03.perturbed_claim_rejected")
							run.Distinct(fmt.Sprintf("C03/%d/%d/%d/%s/final", n, shape, pos, p.kind))
						}
						if r.Class == sim.PANIC {
							kinds["panic:"+p.kind]++
						}
					}
				}
				// the latest final output (B): its valid claim is the control; the same claim naming index 0 ("unset"), the
				// previous index or the next one must fail
				if pos < len(outB.Ws) {
					ctl := outB.Claim(pos, user.String())
					rb := env.L1.Branch().Deliver(cloneClaim(ctl))
					run.Evaluations++
					if run.Check("C03.control_accepted", rb.Class == sim.OK, "c03.control_rejected_latest_output", []string{fmt.Sprintf("tree size %d shape %d: claim %d of the latest final output: %s", n, shape, pos, rb.ErrString())}, "valid claim against the latest final output rejected: %s", rb.ErrString()) {
						for _, idx := range []uint64{0, outB.Index - 1, outB.Index + 1, outB.Index + 2} {
							m := cloneClaim(ctl)
							m.OutputIndex = idx
							b5 := env.L1.Branch()
							e5, r5, p5 := refVerify(b5, m)
							res5 := b5.Deliver(m)
							run.Evaluations++
							if res5.Class == sim.OK {
								run.Check("C03.accepted_claim_is_committed", e5 && r5 && p5, "c03.forged_claim_accepted", []string{fmt.Sprintf("tree size %d shape %d: claim %d of the latest final output %d submitted with output index %d -> ok (ref: exists=%v root=%v proof=%v)", n, shape, pos, outB.Index, idx, e5, r5, p5)}, "a claim of the latest final output accepted under output index %d, which does not store its root", idx)
							} else {
								run.Hit("C03.perturbed_claim_rejected")
								run.Distinct(fmt.Sprintf("C03/%d/%d/%d/latest.index=%d", n, shape, pos, idx))
							}
						}
					}
				}
				// state 2: the output's clock not yet elapsed → even the control must fail
				{
					cl := outC.Claim(pos%len(outC.Ws), user.String())
					b3 := env.L1.Branch()
					r := b3.Deliver(cl)
					run.Evaluations++
					run.Check("C03.not_final_rejected", r.Class != sim.OK, "c03.not_final_accepted", []string{fmt.Sprintf("claim against not-yet-final output %d", outC.Index)}, "claim accepted against an output that is not final")
				}
				// state 3: already paid → control and all other-proof variants must fail
				{
					b4 := env.L1.Branch()
					if r := b4.Deliver(cloneClaim(control)); r.Class != sim.OK {
						// the same valid claim was accepted a moment ago on another (discarded) branch of this state
						run.Check("C03.control_accepted", false, "c03.control_rejected_after_discarded_branch", []string{fmt.Sprintf("tree size %d shape %d pos %d: %s", n, shape, pos, r.ErrString())}, "valid claim rejected on a fresh branch after an identical claim ran on a discarded branch: %s", r.ErrString())
						continue
					}
					for _, sub := range []sim.Account{user, env.Users[5]} {
						m := cloneClaim(control)
						m.Sender = sub.String()
						r := b4.Branch().Deliver(m)
						run.Evaluations++
						run.Check("C03.paid_rejected", r.Class != sim.OK, "c03.paid_again", []string{fmt.Sprintf("tree %d pos %d resubmitted by %s", n, pos, sub.Name)}, "already paid claim accepted again")
					}
				}
			}
		}
	}
	// ---- the stored root itself perturbed: a claim for the true commitment must fail against an output that
	// stores a root differing from it in a single byte (catches truncated / partial root comparisons) ----
	run.Declare("C03.stored_root_must_match_entirely", 32)
	{
		env := newL1Env(1, []time.Duration{period})
		user := env.Users[1]
		if r := env.Deposit(env.Users[0], 1, "l2", "uinit", math.NewInt(500_000_000), nil); r.Class != sim.OK {
			panic(r.ErrString())
		}
		ws := []Withdrawal{{1, 1, "l2a", user.String(), "uinit", 10}, {1, 2, "l2b", user.String(), "uinit", 20}, {1, 3, "l2c", user.String(), "uinit", 30}}
		for pos := 0; pos < 32; pos++ {
			o := BuildOutput(1, ws, ref.PadLast, rng)
			truth := o.OutputRoot
			o.OutputRoot[pos] ^= 0x01 // what the proposer stores
			if res := env.Propose(o); res.Class != sim.OK {
				panic(res.ErrString())
			}
			env.L1.NextBlock(period + time.Second)
			o.OutputRoot = truth
			res := env.L1.Branch().Deliver(o.Claim(0, user.String()))
			run.Evaluations++
			run.Check("C03.stored_root_must_match_entirely", res.Class != sim.OK, "c03.partial_root_comparison", []string{fmt.Sprintf("output %d stores the commitment with byte %d flipped", o.Index, pos)}, "claim accepted although the stored output root differs from the commitment in byte %d", pos)
			run.Distinct(fmt.Sprintf("C03/storedroot/%d", pos))
		}
	}
	// ---- deep paths: a commitment whose path has exactly L siblings (degenerate tree); the exact path is the
	// positive control, any longer or shorter path must fail whatever L is ----
	run.Declare("C03.deep_path_length_is_binding", 16)
	{
		env := newL1Env(1, []time.Duration{period})
		user := env.Users[1]
		if r := env.Deposit(env.Users[0], 1, "l2", "uinit", math.NewInt(500_000_000), nil); r.Class != sim.OK {
			panic(r.ErrString())
		}
		for li, L := range []int{1, 2, 7, 31, 32, 33, 63, 64, 65, 100, 128, 255, 256} {
			w := Withdrawal{1, uint64(1000 + li), "l2deep", user.String(), "uinit", uint64(10 + li)}
			sibs := make([][]byte, L)
			for i := range sibs {
				sibs[i] = rng.Bytes(32)
			}
			root := ref.Root(w.Leaf(), sibs)
			o := &ProposedOutput{BridgeID: 1, Ws: []Withdrawal{w}, Version: 1, StorageRoot: root, BlockHash: rng.Bytes(32)}
			o.OutputRoot = ref.OutputRoot(o.Version, o.StorageRoot[:], o.BlockHash)
			if res := env.Propose(o); res.Class != sim.OK {
				panic(res.ErrString())
			}
			env.L1.NextBlock(period + time.Second)
			mk := func(proof [][]byte) *ophosttypes.MsgFinalizeTokenWithdrawal {
				cp := make([][]byte, len(proof))
				for i := range proof {
					cp[i] = append([]byte(nil), proof[i]...)
				}
				return ophosttypes.NewMsgFinalizeTokenWithdrawal(user.String(), 1, o.Index, w.Seq, cp, w.From, w.To, sdk.NewCoin(w.Denom, math.NewIntFromUint64(w.Amount)), []byte{o.Version}, append([]byte(nil), root[:]...), append([]byte(nil), o.BlockHash...))
			}
			ctl := env.L1.Branch().Deliver(mk(sibs))
			run.Evaluations++
			if !run.Check("C03.control_accepted", ctl.Class == sim.OK, "c03.deep_control_rejected", []string{fmt.Sprintf("path length %d", L)}, "valid claim with a %d-element path rejected: %s", L, ctl.ErrString()) {
				continue
			}
			variants := map[string][][]byte{
				"extended+1 garbage": append(append([][]byte{}, sibs...), rng.Bytes(32)),
				"extended+dup last":  append(append([][]byte{}, sibs...), sibs[L-1]),
				"extended+5 garbage": append(append([][]byte{}, sibs...), rng.Bytes(32), rng.Bytes(32), rng.Bytes(32), rng.Bytes(32), rng.Bytes(32)),
				"truncated last":     sibs[:L-1],
				"truncated first":    sibs[1:],
			}
			for name, pr := range variants {
				r := env.L1.Branch().Deliver(mk(pr))
				run.Evaluations++
				run.Check("C03.deep_path_length_is_binding", r.Class != sim.OK, "c03.path_length_not_binding", []string{fmt.Sprintf("committed path length %d, submitted %s (%d elements)", L, name, len(pr))}, "claim with a %s path accepted for a commitment of path length %d", name, L)
				run.Distinct(fmt.Sprintf("C03/deep/%d/%s", L, name))
			}
		}
	}
	// ---- ghost outputs: roots that were proposed (and read) only on state branches that were thrown away — a failed
	// multi-message transaction, a simulation — commit to nothing. Each script runs on a discarded branch, then time
	// passes on the committed chain and the claim against the ghost root is delivered for real. ----
	run.Declare("C03.discarded_proposal_commits_nothing", 12)
	{
		scripts := []string{"propose-next+claim", "propose-next+query", "delete-last+repropose+claim", "delete-last+repropose+query", "propose-next+claim, then real output at that index", "delete-last+repropose+claim, last output final later"}
		for si, sc := range scripts {
			for rep := 0; rep < pick(thorough, 2, 6); rep++ {
				env := newL1Env(1, []time.Duration{period})
				user := env.Users[1]
				if r := env.Deposit(env.Users[0], 1, "l2", "uinit", math.NewInt(500_000_000), nil); r.Class != sim.OK {
					panic(r.ErrString())
				}
				roles := env.Bridges[1]
				good := env.ProposeTree(1, []Withdrawal{{1, 1, "l2a", user.String(), "uinit", 10}, {1, 2, "l2b", user.String(), "uinit", 20}}, ref.PadLast, rng)
				if rep%2 == 1 {
					env.L1.NextBlock(time.Second)
					good = env.ProposeTree(1, []Withdrawal{{1, 3, "l2a", user.String(), "uinit", 11}, {1, 4, "l2b", user.String(), "uinit", 21}}, ref.PadLast, rng)
				}
				env.L1.NextBlock(time.Second)
				ghost := BuildOutput(1, []Withdrawal{{1, 77, "l2ghost", user.String(), "uinit", 123456}, {1, 78, "l2ghost", user.String(), "uinit", 654321}}, ref.PadLast, rng)
				br := env.L1.Branch()
				var steps []string
				if si == 2 || si == 3 || si == 5 {
					r := br.Deliver(ophosttypes.NewMsgDeleteOutput(roles.Challenger.String(), 1, good.Index))
					steps = append(steps, fmt.Sprintf("branch: delete output %d -> %s", good.Index, r.Class))
					ghost.Index = good.Index
				} else {
					ghost.Index = good.Index + 1
				}
				r := br.Deliver(ophosttypes.NewMsgProposeOutput(roles.Proposer.String(), 1, ghost.Index, roles.LastL2+50, ghost.OutputRoot[:]))
				steps = append(steps, fmt.Sprintf("branch: propose ghost root at index %d -> %s %s", ghost.Index, r.Class, r.ErrString()))
				if r.Class != sim.OK {
					panic("ghost proposal failed on the branch: " + r.ErrString())
				}
				if si == 1 || si == 3 {
					_, err := br.Q.OutputProposal(br.Ctx, &ophosttypes.QueryOutputProposalRequest{BridgeId: 1, OutputIndex: ghost.Index})
					steps = append(steps, fmt.Sprintf("branch: query output %d -> err=%v", ghost.Index, err))
				} else {
					r := br.Deliver(ghost.Claim(0, user.String()))
					steps = append(steps, fmt.Sprintf("branch: claim against ghost -> %s (not final yet)", r.Class))
				}
				steps = append(steps, "branch discarded")
				if si == 4 {
					env.L1.NextBlock(time.Second)
					real := env.ProposeTree(1, []Withdrawal{{1, 5, "l2a", user.String(), "uinit", 12}}, ref.PadLast, rng)
					steps = append(steps, fmt.Sprintf("committed: real output proposed at index %d", real.Index))
				}
				env.L1.NextBlock(period + 2*time.Second)
				steps = append(steps, "committed: finalization period passes")
				for leaf := 0; leaf < 2; leaf++ {
					m := ghost.Claim(leaf, user.String())
					e, ro, po := refVerify(env.L1, m)
					res := env.L1.Branch().Deliver(m)
					run.Evaluations++
					run.Check("C03.discarded_proposal_commits_nothing", res.Class != sim.OK, "c03.ghost_root_honoured", append(steps, fmt.Sprintf("committed: claim leaf %d against the ghost root at index %d -> %s (ref: exists=%v root=%v proof=%v)", leaf, ghost.Index, res.Class, e, ro, po)), "claim paid against a root that was only ever proposed on a discarded branch (script %q)", sc)
				}
				// the committed output is still honoured
				ctl := env.L1.Branch().Deliver(good.Claim(0, user.String()))
				run.Evaluations++
				run.Check("C03.control_accepted", ctl.Class == sim.OK, "c03.control_rejected_after_ghost", append(steps, fmt.Sprintf("committed: claim against the really stored output -> %s %s", ctl.Class, ctl.ErrString())), "valid claim against the committed output %d rejected after a discarded branch touched that bridge (script %q)", good.Index, sc)
				run.Distinct(fmt.Sprintf("C03/ghost/%s/%d", sc, rep%2))
			}
		}
	}
	for k, v := range kinds {
		run.Counters[k] = v
	}
	run.Extra["max_tree_size"] = maxN
	run.Sample(map[string]interface{}{"tree_size": 5, "position": 2, "perturbations": "version.bit x8, storage_root.bit x32, block_hash.bit x32, proof.bit x32 per element, sequence±1/highbit, amount±1/*2/highbit/+2^64, bridge_id.other, output_index in {other tree, not-final, missing, 0}, from<->to, from=to.concat, denom, proof empty/truncated head|tail/extended/swap/other leaf/inner node"})
}
