package props

import (
	"fmt"
	"github.com/cosmos/cosmos-sdk/crypto/keys/secp256k1"
	"strconv"
	"time"

	"cosmossdk.io/math"
	"github.com/cosmos/cosmos-sdk/crypto/keys/ed25519"
	cryptotypes "github.com/cosmos/cosmos-sdk/crypto/types"
	sdk "github.com/cosmos/cosmos-sdk/types"

	opchildtypes "github.com/initia-labs/OPinit/x/opchild/types"
	ophosttypes "github.com/initia-labs/OPinit/x/ophost/types"

	"verifharness/mon"
	"verifharness/ref"
	"verifharness/sim"
)

// ValKey is a deterministic validator identity.
type ValKey struct {
	Operator sim.Account
	Priv     cryptotypes.PrivKey
	Pub      cryptotypes.PubKey
}

func (v ValKey) ConsAddrHex() string { return fmt.Sprintf("%X", v.Pub.Address().Bytes()) }

func NewConsKey(label string) (cryptotypes.PrivKey, cryptotypes.PubKey) {
	if n, err := strconv.Atoi(label); err == nil && n%5 == 3 {
		// every fifth validator key is a secp256k1 key (the module accepts any registered key type)
		priv := secp256k1.GenPrivKeyFromSecret([]byte("verif/cons/" + label))
		return priv, priv.PubKey()
	}
	priv := ed25519.GenPrivKeyFromSecret([]byte("verif/cons/" + label))
	return priv, priv.PubKey()
}

func NewValKey(i int) ValKey {
	priv, pub := NewConsKey(fmt.Sprintf("%d", i))
	return ValKey{Operator: sim.NewAccount(fmt.Sprintf("operator%d", i)), Priv: priv, Pub: pub}
}

func (v ValKey) Validator() opchildtypes.Validator {
	val, err := opchildtypes.NewValidator(sdk.ValAddress(v.Operator.Addr), v.Pub, "val-"+v.Operator.Name)
	if err != nil {
		panic(err)
	}
	return val
}

// L2Env is an L2 chain with an admin, executors, users and a bound bridge.
type L2Env struct {
	L2        *sim.L2
	Admin     sim.Account
	Executors []sim.Account
	Users     []sim.Account
	BridgeID  uint64
	L1ChainID string
}

type L2EnvOpts struct {
	BridgeID      uint64
	GenesisVals   []ValKey
	MaxValidators uint32
	Historical    uint32
	HookMaxGas    uint64
	MinGasPrices  sdk.DecCoins
	NoBridgeInfo  bool
	OracleEnabled bool
	CheckTx       bool
	FeeWhitelist  []string
	// NextL1Sequence, when > 0, is the genesis value of the next expected L1 deposit sequence
	NextL1Sequence uint64
}

func newL2Env(o L2EnvOpts) *L2Env {
	vals := o.GenesisVals
	if vals == nil {
		vals = []ValKey{NewValKey(100)}
	}
	var gvals []opchildtypes.Validator
	for _, v := range vals {
		gvals = append(gvals, v.Validator())
	}
	e, err := newL2EnvGen(o, gvals)
	if err != nil {
		panic(err)
	}
	return e
}

// newL2EnvGen starts an L2 from an arbitrary genesis validator list. The genesis must pass the module's own
// ValidateGenesis (error otherwise); an error is also returned if InitGenesis panics or the engine refuses its batch.
func newL2EnvGen(o L2EnvOpts, gvals []opchildtypes.Validator) (e *L2Env, err error) {
	e = &L2Env{Admin: sim.NewAccount("l2admin"), BridgeID: o.BridgeID, L1ChainID: "l1-chain"}
	if e.BridgeID == 0 {
		e.BridgeID = 1
	}
	e.Executors = []sim.Account{sim.NewAccount("executorA"), sim.NewAccount("executorB")}
	for i := 0; i < 6; i++ {
		e.Users = append(e.Users, sim.NewAccount(fmt.Sprintf("l2user%d", i)))
	}
	e.L2 = sim.NewL2(sim.L2Opts{CheckTx: o.CheckTx})
	maxV := o.MaxValidators
	if maxV == 0 {
		maxV = 100
	}
	hmg := o.HookMaxGas
	if hmg == 0 {
		hmg = opchildtypes.DefaultHookMaxGas
	}
	params := opchildtypes.NewParams(e.Admin.String(), []string{e.Executors[0].String(), e.Executors[1].String()}, maxV, o.Historical, o.MinGasPrices, o.FeeWhitelist, hmg)
	gs := opchildtypes.NewGenesisState(params, gvals, nil)
	gs.NextL1Sequence, gs.NextL2Sequence = 1, 1
	if o.NextL1Sequence > 0 {
		gs.NextL1Sequence = o.NextL1Sequence // a chain whose genesis was exported after that many deposits
	}
	if verr := opchildtypes.ValidateGenesis(gs, e.L2.AK.AddressCodec()); verr != nil {
		return nil, fmt.Errorf("%w: %v", ErrGenesisRefused, verr)
	}
	if ierr := func() (err error) {
		defer func() {
			if r := recover(); r != nil {
				err = fmt.Errorf("InitGenesis panicked: %v", r)
			}
		}()
		_, err = e.L2.InitGenesis(gs)
		return err
	}(); ierr != nil {
		return e, ierr
	}
	if !o.NoBridgeInfo {
		// either configured executor may bind the bridge; which of them is refused (if any) is for the properties about
		// authorisation to judge, not for the environment setup
		res := e.L2.Deliver(opchildtypes.NewMsgSetBridgeInfo(e.Executors[0].String(), e.BridgeInfo("", o.OracleEnabled)))
		if res.Class != sim.OK {
			res = e.L2.Deliver(opchildtypes.NewMsgSetBridgeInfo(e.Executors[1].String(), e.BridgeInfo("", o.OracleEnabled)))
		}
		if res.Class != sim.OK {
			panic("set bridge info: " + res.ErrString())
		}
	}
	return e, nil
}

// ErrGenesisRefused: the module's ValidateGenesis did not accept the genesis.
var ErrGenesisRefused = fmt.Errorf("genesis refused by ValidateGenesis")

func (e *L2Env) BridgeInfo(clientID string, oracle bool) opchildtypes.BridgeInfo {
	// proposer / challenger are L1 accounts, written in the L1's own address format (another bech32 prefix)
	cfg := bridgeConfig(wrongPrefixAddr(sim.NewAccount("proposer1").Addr), wrongPrefixAddr(sim.NewAccount("challenger1").Addr), 10*time.Second, nil)
	cfg.OracleEnabled = oracle
	return opchildtypes.BridgeInfo{
		BridgeId:     e.BridgeID,
		BridgeAddr:   ophosttypes.BridgeAddress(e.BridgeID).String(),
		L1ChainId:    e.L1ChainID,
		L1ClientId:   clientID,
		BridgeConfig: cfg,
	}
}

func (e *L2Env) Branch() *L2Env {
	cp := *e
	cp.L2 = e.L2.Branch()
	return &cp
}

// L2Denom is the bridged denom of l1Denom on this env's bridge.
func (e *L2Env) L2Denom(l1Denom string) string { return ref.L2Denom(e.BridgeID, l1Denom) }

// DepositMsg builds the finalization message a faithful executor would relay.
func (e *L2Env) DepositMsg(executor sim.Account, seq uint64, from, to, l1Denom string, amount math.Int, data []byte) *opchildtypes.MsgFinalizeTokenDeposit {
	return opchildtypes.NewMsgFinalizeTokenDeposit(executor.String(), from, to, sdk.NewCoin(e.L2Denom(l1Denom), amount), seq, 1, l1Denom, data)
}

func (e *L2Env) NextL1Seq() uint64 {
	r, err := e.L2.Q.NextL1Sequence(e.L2.Ctx, &opchildtypes.QueryNextL1SequenceRequest{})
	if err != nil {
		panic(err)
	}
	return r.NextL1Sequence
}

func (e *L2Env) NextL2Seq() uint64 {
	r, err := e.L2.Q.NextL2Sequence(e.L2.Ctx, &opchildtypes.QueryNextL2SequenceRequest{})
	if err != nil {
		panic(err)
	}
	return r.NextL2Sequence
}

// DeliverWithBankFault delivers msg with an error or a panic injected at the opchild handler's MintCoins or
// SendCoinsFromModuleToAccount call (a panicking send restriction, recipient-side logic). The call index is found by a
// recording run on a discarded branch; shadow activity is suspended meanwhile (foreign calls would shift the indices).
// Returns the result and a description of the fault that fired ("" if none did).
func (e *L2Env) DeliverWithBankFault(rng *mon.Rand, gas uint64, msg sdk.Msg) (sim.Result, string) {
	l2 := e.L2
	shadow, spec := l2.Shadow, l2.Speculate
	l2.Shadow, l2.Speculate = nil, false
	defer func() { l2.Shadow, l2.Speculate = shadow, spec }()
	rec := l2.Branch()
	l2.F.Arm(-1, sim.FaultError)
	rec.DeliverGas(gas, msg)
	calls := append([]sim.Call(nil), l2.F.Calls...)
	l2.F.Disarm()
	want := mon.Pick(rng, []string{"MintCoins", "SendCoinsFromModuleToAccount"})
	kind := mon.Pick(rng, []sim.FaultKind{sim.FaultError, sim.FaultPanic})
	for i, c := range calls {
		if c.Name == want && c.Layer == "opchild.bank" {
			l2.F.Arm(i, kind)
			res := l2.DeliverGas(gas, msg)
			fired := l2.F.Fired
			l2.F.Disarm()
			if fired {
				return res, fmt.Sprintf("%s at %s", kind, want)
			}
			return res, ""
		}
	}
	return l2.DeliverGas(gas, msg), ""
}
