package props

import (
	"fmt"
	"sort"
	"strings"
	"time"

	"cosmossdk.io/math"
	sdk "github.com/cosmos/cosmos-sdk/types"
	banktypes "github.com/cosmos/cosmos-sdk/x/bank/types"

	opchildtypes "github.com/initia-labs/OPinit/x/opchild/types"
	ophosttypes "github.com/initia-labs/OPinit/x/ophost/types"

	"verifharness/mon"
	"verifharness/sim"
)

// ---------------------------------------------------------------------------
// Shadow activity: before every committed transaction a script of OTHER
// transactions, block boundaries and queries runs on a throw-away branch of the
// current state (what CheckTx, simulation, a failed multi-message transaction, an
// aborted or replayed block execution do on a real node). The branch is discarded;
// the monitors of the property in question keep comparing the committed history
// with their model, so anything that leaks out of a discarded branch through
// process memory (caches, memoised decisions, mutated shared values) shows up as a
// model violation. The script draws from its own PRNG: the committed history is
// the same with and without shadows.
// ---------------------------------------------------------------------------

// EnableShadow installs the standard L2 shadow script.
func (e *L2Env) EnableShadow(seed uint64) {
	rng := mon.NewRand(seed ^ 0x5ad0)
	n := 0
	e.L2.Shadow = func(br *sim.L2) {
		n++
		l2Shadow(e, br, rng, n)
	}
}

func l2Shadow(e *L2Env, br *sim.L2, rng *mon.Rand, n int) {
	pool := []string{e.Executors[0].String(), e.Executors[1].String(), sim.NewAccount("executorC").String(), sim.NewAccount("executorD").String(), sim.NewAccount("shadow-exec").String()}
	for i, k := 0, 1+rng.Intn(3); i < k; i++ {
		p, err := br.K.GetParams(br.Ctx)
		if err != nil {
			return
		}
		switch rng.Intn(9) {
		case 0: // every parameter changes
			cnt := 1 + rng.Intn(3)
			var ex []string
			for off, j := rng.Intn(len(pool)), 0; j < cnt; j++ {
				ex = append(ex, pool[(off+j)%len(pool)])
			}
			p.BridgeExecutors = ex
			p.FeeWhitelist = nil
			for _, u := range e.Users {
				if rng.Chance(30) {
					p.FeeWhitelist = append(p.FeeWhitelist, u.String())
				}
			}
			p.HookMaxGas = mon.Pick(rng, []uint64{1, 5_000, 100_000, opchildtypes.DefaultHookMaxGas, 10_000_000})
			p.HistoricalEntries = uint32(rng.Intn(5))
			p.MinGasPrices = mon.Pick(rng, []sdk.DecCoins{nil, sdk.NewDecCoins(sdk.NewDecCoin("uinit", math.NewInt(3))), sdk.NewDecCoins(sdk.NewDecCoinFromDec("ufee", math.LegacyNewDecWithPrec(15, 2)))})
			if rng.Chance(30) {
				p.Admin = sim.NewAccount("shadow-admin").String()
			}
			br.Deliver(opchildtypes.NewMsgUpdateParams(br.Authority, &p))
		case 1: // bridge info re-set with the oracle flag toggled
			if bi, err := br.K.BridgeInfo.Get(br.Ctx); err == nil && len(p.BridgeExecutors) > 0 {
				bi.BridgeConfig.OracleEnabled = !bi.BridgeConfig.OracleEnabled
				bi.BridgeConfig.Metadata = []byte(fmt.Sprintf("shadow-%d", n))
				br.Deliver(opchildtypes.NewMsgSetBridgeInfo(p.BridgeExecutors[0], bi))
			}
		case 2: // a validator joins
			v := NewValKey(7000 + n%500)
			if m, err := opchildtypes.NewMsgAddValidator("shadow", br.Authority, v.Operator.Val(), v.Pub); err == nil {
				br.Deliver(m)
			}
		case 3: // a validator leaves
			if vs, err := br.Q.Validators(br.Ctx, &opchildtypes.QueryValidatorsRequest{}); err == nil && len(vs.Validators) > 0 {
				if m, err := opchildtypes.NewMsgRemoveValidator(br.Authority, vs.Validators[rng.Intn(len(vs.Validators))].OperatorAddress); err == nil {
					br.Deliver(m)
				}
			}
		case 4: // the next deposit is finalized with a denom never seen before / to an unusable recipient
			if len(p.BridgeExecutors) > 0 {
				seq, _ := br.K.GetNextL1Sequence(br.Ctx)
				l1d := mon.Pick(rng, []string{fmt.Sprintf("ushadow%d", n), "uinit", "uusdc", "ueth"})
				to := mon.Pick(rng, []string{e.Users[rng.Intn(len(e.Users))].String(), "not-an-address", br.Authority})
				br.DeliverGas(50_000_000, opchildtypes.NewMsgFinalizeTokenDeposit(p.BridgeExecutors[0], "l1shadow", to, sdk.NewCoin(e.L2Denom(l1d), math.NewInt(int64(1+rng.Intn(1_000_000)))), seq, 1, l1d, nil))
				_, _ = br.Q.BaseDenom(br.Ctx, &opchildtypes.QueryBaseDenomRequest{Denom: e.L2Denom(l1d)})
			}
		case 5: // somebody withdraws / transfers whatever bridged tokens they hold
			u := e.Users[rng.Intn(len(e.Users))]
			for _, c := range br.BK.GetAllBalances(br.Ctx, u.Addr) {
				if strings.HasPrefix(c.Denom, "l2/") && c.Amount.IsPositive() {
					if rng.Bool() {
						br.Deliver(opchildtypes.NewMsgInitiateTokenWithdrawal(u.String(), "l1shadow", sdk.NewCoin(c.Denom, math.OneInt())))
					} else {
						br.Deliver(banktypes.NewMsgSend(u.Addr, e.Users[rng.Intn(len(e.Users))].Addr, sdk.NewCoins(sdk.NewCoin(c.Denom, c.Amount))))
					}
					break
				}
			}
		case 6: // the block ends and the next one begins (only when no executor-change plan is registered)
			if len(br.K.ExecutorChangePlans) == 0 {
				br.NextBlock(time.Second)
			}
		case 7: // read paths
			_, _ = br.Q.Params(br.Ctx, &opchildtypes.QueryParamsRequest{})
			_, _ = br.Q.BridgeInfo(br.Ctx, &opchildtypes.QueryBridgeInfoRequest{})
			_, _ = br.Q.Validators(br.Ctx, &opchildtypes.QueryValidatorsRequest{})
			_, _ = br.Q.NextL1Sequence(br.Ctx, &opchildtypes.QueryNextL1SequenceRequest{})
			_, _ = br.Q.NextL2Sequence(br.Ctx, &opchildtypes.QueryNextL2SequenceRequest{})
		case 8: // a deposit far ahead of the sequence and a stale one
			if len(p.BridgeExecutors) > 0 {
				seq, _ := br.K.GetNextL1Sequence(br.Ctx)
				for _, sq := range []uint64{seq + 5, seq - 1} {
					if sq >= 1 {
						br.Deliver(opchildtypes.NewMsgFinalizeTokenDeposit(p.BridgeExecutors[0], "l1shadow", e.Users[0].String(), sdk.NewCoin(e.L2Denom("uinit"), math.NewInt(7)), sq, 1, "uinit", nil))
					}
				}
			}
		}
	}
}

// EnableShadow installs the standard L1 shadow script.
func (e *L1Env) EnableShadow(seed uint64) {
	rng := mon.NewRand(seed ^ 0x5ad1)
	n := 0
	e.L1.Shadow = func(br *sim.L1) {
		n++
		l1Shadow(e, br, rng, n)
	}
}

func l1Shadow(e *L1Env, br *sim.L1, rng *mon.Rand, n int) {
	var ids []uint64
	_ = br.K.IterateBridgeConfig(br.Ctx, func(id uint64, _ ophosttypes.BridgeConfig) (bool, error) {
		ids = append(ids, id)
		return false, nil
	})
	sort.Slice(ids, func(i, j int) bool { return ids[i] < ids[j] })
	user := e.Users[rng.Intn(len(e.Users))]
	stranger := sim.NewAccount(fmt.Sprintf("shadow-role%d", n%7))
	root := func() []byte { return rng.Bytes(32) }
	for i, k := 0, 1+rng.Intn(3); i < k; i++ {
		var id uint64
		var cfg ophosttypes.BridgeConfig
		if len(ids) > 0 {
			id = ids[rng.Intn(len(ids))]
			cfg, _ = br.K.GetBridgeConfig(br.Ctx, id)
		}
		switch rng.Intn(10) {
		case 0: // a bridge is created under the id the next real bridge will get, and used
			nid, _ := br.K.GetNextBridgeId(br.Ctx)
			p := sim.NewAccount("shadow-proposer")
			br.Deliver(ophosttypes.NewMsgCreateBridge(user.String(), bridgeConfig(p.String(), p.String(), time.Second, nil)))
			br.Deliver(ophosttypes.NewMsgInitiateTokenDeposit(user.String(), nid, "l2shadow", sdk.NewCoin("uinit", math.NewInt(5)), nil))
			br.Deliver(ophosttypes.NewMsgProposeOutput(p.String(), nid, 1, 10, root()))
			br.NextBlock(2 * time.Second)
			_, _ = br.Q.LastFinalizedOutput(br.Ctx, &ophosttypes.QueryLastFinalizedOutputRequest{BridgeId: nid})
		case 1: // the next output is proposed with some other root (after the last one was perhaps deleted)
			if id != 0 {
				next, _ := br.K.GetNextOutputIndex(br.Ctx, id)
				if next > 1 && rng.Bool() {
					br.Deliver(ophosttypes.NewMsgDeleteOutput(cfg.Challenger, id, next-1))
					next, _ = br.K.GetNextOutputIndex(br.Ctx, id)
				}
				l2 := uint64(1)
				if next > 1 {
					if o, err := br.K.GetOutputProposal(br.Ctx, id, next-1); err == nil {
						l2 = o.L2BlockNumber + 1 + uint64(rng.Intn(9))
					}
				}
				br.Deliver(ophosttypes.NewMsgProposeOutput(cfg.Proposer, id, next, l2, root()))
				_, _ = br.Q.OutputProposal(br.Ctx, &ophosttypes.QueryOutputProposalRequest{BridgeId: id, OutputIndex: next})
			}
		case 2: // outputs are deleted from some index on
			if id != 0 {
				next, _ := br.K.GetNextOutputIndex(br.Ctx, id)
				if next > 1 {
					br.Deliver(ophosttypes.NewMsgDeleteOutput(cfg.Challenger, id, 1+uint64(rng.Intn(int(next-1)))))
				}
			}
		case 3: // roles move to somebody else
			if id != 0 {
				if rng.Bool() {
					br.Deliver(ophosttypes.NewMsgUpdateProposer(br.Gov, id, stranger.String()))
				} else {
					br.Deliver(ophosttypes.NewMsgUpdateChallenger(br.Gov, id, stranger.String()))
				}
			}
		case 4: // batch info / metadata / oracle flag change
			if id != 0 {
				switch rng.Intn(3) {
				case 0:
					br.Deliver(ophosttypes.NewMsgUpdateBatchInfo(cfg.Proposer, id, ophosttypes.BatchInfo{Submitter: stranger.String(), ChainType: ophosttypes.BatchInfo_CHAIN_TYPE_CELESTIA}))
				case 1:
					br.Deliver(ophosttypes.NewMsgUpdateMetadata(cfg.Proposer, id, []byte(fmt.Sprintf("shadow-metadata-%d", n))))
				default:
					br.Deliver(ophosttypes.NewMsgUpdateOracleConfig(cfg.Proposer, id, !cfg.OracleEnabled))
				}
			}
		case 5: // deposits of several denoms
			if id != 0 {
				for _, d := range e.Denoms {
					br.Deliver(ophosttypes.NewMsgInitiateTokenDeposit(user.String(), id, "l2shadow", sdk.NewCoin(d, math.NewInt(int64(1+rng.Intn(1000)))), nil))
				}
				_, _ = br.Q.TokenPairs(br.Ctx, &ophosttypes.QueryTokenPairsRequest{BridgeId: id})
			}
		case 6: // time passes: everything proposed so far becomes final; finality is read and acted upon
			br.NextBlock(mon.Pick(rng, []time.Duration{time.Second, time.Minute, 2 * time.Hour, 30 * 24 * time.Hour}))
			for _, b := range ids {
				_, _ = br.Q.LastFinalizedOutput(br.Ctx, &ophosttypes.QueryLastFinalizedOutputRequest{BridgeId: b})
				c2, _ := br.K.GetBridgeConfig(br.Ctx, b)
				br.Deliver(ophosttypes.NewMsgDeleteOutput(c2.Challenger, b, 1))
			}
		case 7: // module parameters change
			{
				p := br.K.GetParams(br.Ctx)
				p.RegistrationFee = sdk.NewCoins(sdk.NewCoin("uinit", math.NewInt(int64(rng.Intn(50)))))
				br.Deliver(ophosttypes.NewMsgUpdateParams(br.Gov, &p))
			}
		case 8: // the finalization period of a bridge changes (a re-created config through the keeper's setter is not exposed by a message; roles + batch only)
			if id != 0 {
				br.Deliver(ophosttypes.NewMsgRecordBatch(cfg.BatchInfo.Submitter, id, rng.Bytes(20)))
			}
		case 9: // read paths
			for _, b := range ids {
				_, _ = br.Q.Bridge(br.Ctx, &ophosttypes.QueryBridgeRequest{BridgeId: b})
				_, _ = br.Q.OutputProposals(br.Ctx, &ophosttypes.QueryOutputProposalsRequest{BridgeId: b})
				_, _ = br.Q.NextL1Sequence(br.Ctx, &ophosttypes.QueryNextL1SequenceRequest{BridgeId: b})
			}
		}
	}
}
