package props

import (
	"fmt"
	"strings"
	"time"

	"cosmossdk.io/math"
	sdk "github.com/cosmos/cosmos-sdk/types"

	ophosttypes "github.com/initia-labs/OPinit/x/ophost/types"

	"verifharness/mon"
	"verifharness/ref"
	"verifharness/sim"
)

// Withdrawal is the identity of an L2 withdrawal as committed in a leaf.
type Withdrawal struct {
	BridgeID uint64
	Seq      uint64
	From     string
	To       string
	Denom    string // L1 denom
	Amount   uint64
}

func (w Withdrawal) Leaf() [32]byte {
	return ref.Leaf(w.BridgeID, w.Seq, w.From, w.To, w.Denom, w.Amount)
}

func (w Withdrawal) Key() string {
	return fmt.Sprintf("%d/%d/%s/%s/%s/%d", w.BridgeID, w.Seq, w.From, w.To, w.Denom, w.Amount)
}

// BridgeRoles is the harness's knowledge of who was appointed.
type BridgeRoles struct {
	ID         uint64
	Proposer   sim.Account
	Challenger sim.Account
	Period     time.Duration
	LastL2     uint64
}

// L1Env is an L1 chain with funded users and bridges.
type L1Env struct {
	L1      *sim.L1
	Users   []sim.Account
	Bridges map[uint64]*BridgeRoles
	Denoms  []string
}

// two denoms of the maximum length the SDK allows (128), sharing their first 120 characters
var longDenomA = "move/" + strings.Repeat("0123456789abcdef", 7) + "xyz" + "AAAAAAAA"
var longDenomB = "move/" + strings.Repeat("0123456789abcdef", 7) + "xyz" + "BBBBBBBB"

// lookalikeDenom: a valid L1 bank denom that has the shape of a derived L2 denom ("l2/" + 64 hex characters) — in fact the
// very string bridge 1 derives for uinit. It is a token like any other and gets its own derived L2 name.
var lookalikeDenom = ref.L2Denom(1, "uinit")

var defaultDenoms = []string{"uinit", "uusdc", "ibc/27394FB092D2ECCD56123C74F36E4C1F926001CEADA9CA97EA622B25F41E5EB2", longDenomA, longDenomB, lookalikeDenom}

const userFunds = 1_000_000_000_000

// newL1Env creates an L1 with 8 funded users and n bridges (period i from periods, default 10s).
func newL1Env(n int, periods []time.Duration) *L1Env {
	return newL1EnvAt(n, periods, time.Time{})
}

func newL1EnvAt(n int, periods []time.Duration, start time.Time) *L1Env {
	return newL1EnvOpts(n, periods, sim.L1Opts{StartTime: start})
}

func newL1EnvOpts(n int, periods []time.Duration, opts sim.L1Opts) *L1Env {
	e := &L1Env{L1: sim.NewL1(opts), Bridges: map[uint64]*BridgeRoles{}, Denoms: defaultDenoms}
	for i := 0; i < 8; i++ {
		u := sim.NewAccount(fmt.Sprintf("l1user%d", i))
		e.Users = append(e.Users, u)
		for _, d := range e.Denoms {
			e.L1.Fund(u.Addr, sdk.NewCoin(d, math.NewInt(userFunds)))
		}
	}
	for i := 0; i < n; i++ {
		p := 10 * time.Second
		if i < len(periods) {
			p = periods[i]
		}
		id, res := e.CreateBridge(e.Users[0], sim.NewAccount(fmt.Sprintf("proposer%d", i+1)), sim.NewAccount(fmt.Sprintf("challenger%d", i+1)), p, nil)
		if res.Class != sim.OK {
			panic("create bridge: " + res.ErrString())
		}
		_ = id
	}
	return e
}

func bridgeConfig(proposer, challenger string, period time.Duration, metadata []byte) ophosttypes.BridgeConfig {
	return ophosttypes.BridgeConfig{
		Challenger:            challenger,
		Proposer:              proposer,
		BatchInfo:             ophosttypes.BatchInfo{Submitter: proposer, ChainType: ophosttypes.BatchInfo_CHAIN_TYPE_INITIA},
		SubmissionInterval:    time.Second * 10,
		FinalizationPeriod:    period,
		SubmissionStartHeight: 1,
		Metadata:              metadata,
	}
}

func (e *L1Env) CreateBridge(creator, proposer, challenger sim.Account, period time.Duration, metadata []byte) (uint64, sim.Result) {
	res := e.L1.Deliver(ophosttypes.NewMsgCreateBridge(creator.String(), bridgeConfig(proposer.String(), challenger.String(), period, metadata)))
	if res.Class != sim.OK {
		return 0, res
	}
	id := res.Resp().(*ophosttypes.MsgCreateBridgeResponse).BridgeId
	e.Bridges[id] = &BridgeRoles{ID: id, Proposer: proposer, Challenger: challenger, Period: period}
	return id, res
}

func (e *L1Env) Period(id uint64) time.Duration { return e.Bridges[id].Period }

// Branch forks the chain; role bookkeeping is copied.
func (e *L1Env) Branch() *L1Env {
	cp := &L1Env{L1: e.L1.Branch(), Users: e.Users, Denoms: e.Denoms, Bridges: map[uint64]*BridgeRoles{}}
	for k, v := range e.Bridges {
		c := *v
		cp.Bridges[k] = &c
	}
	return cp
}

// ProposedOutput is an output the harness proposed, with everything a claimant needs.
type ProposedOutput struct {
	BridgeID    uint64
	Index       uint64
	Ws          []Withdrawal
	Tree        *ref.Tree
	Version     byte
	StorageRoot [32]byte
	BlockHash   []byte
	OutputRoot  [32]byte
	L2Block     uint64
	ProposedAt  time.Time
	L1Height    int64
}

// BuildOutput builds the commitment over ws without proposing it.
func BuildOutput(bridge uint64, ws []Withdrawal, shape ref.TreeShape, rng *mon.Rand) *ProposedOutput {
	leaves := make([][32]byte, len(ws))
	for i, w := range ws {
		leaves[i] = w.Leaf()
	}
	tree := ref.BuildTree(leaves, shape)
	o := &ProposedOutput{BridgeID: bridge, Ws: ws, Tree: tree, Version: byte(rng.Intn(3)), StorageRoot: tree.Root(), BlockHash: rng.Bytes(32)}
	o.OutputRoot = ref.OutputRoot(o.Version, o.StorageRoot[:], o.BlockHash)
	return o
}

// NextOutputIndex reads the next index via the exported keeper method.
func (e *L1Env) NextOutputIndex(bridge uint64) uint64 {
	n, err := e.L1.K.GetNextOutputIndex(e.L1.Ctx, bridge)
	if err != nil {
		panic(err)
	}
	return n
}

// Propose delivers the proposal for o at the next index.
func (e *L1Env) Propose(o *ProposedOutput) sim.Result {
	b := e.Bridges[o.BridgeID]
	o.Index = e.NextOutputIndex(o.BridgeID)
	o.L2Block = b.LastL2 + 1 + uint64(o.BlockHash[0]%5)
	res := e.L1.Deliver(ophosttypes.NewMsgProposeOutput(b.Proposer.String(), o.BridgeID, o.Index, o.L2Block, o.OutputRoot[:]))
	if res.Class == sim.OK {
		b.LastL2 = o.L2Block
		o.ProposedAt = e.L1.Time()
		o.L1Height = e.L1.Ctx.BlockHeight()
	}
	return res
}

// ProposeTree builds and proposes; panics if the proposal is refused.
func (e *L1Env) ProposeTree(bridge uint64, ws []Withdrawal, shape ref.TreeShape, rng *mon.Rand) *ProposedOutput {
	o := BuildOutput(bridge, ws, shape, rng)
	if res := e.Propose(o); res.Class != sim.OK {
		panic("propose failed: " + res.ErrString())
	}
	return o
}

// Claim builds the finalization message for leaf i, submitted by sender.
func (o *ProposedOutput) Claim(i int, sender string) *ophosttypes.MsgFinalizeTokenWithdrawal {
	w := o.Ws[i]
	return ophosttypes.NewMsgFinalizeTokenWithdrawal(sender, w.BridgeID, o.Index, w.Seq, o.Tree.Proof(i), w.From, w.To,
		sdk.NewCoin(w.Denom, math.NewIntFromUint64(w.Amount)), []byte{o.Version}, append([]byte(nil), o.StorageRoot[:]...), append([]byte(nil), o.BlockHash...))
}

// Deposit is a convenience: a real L1 deposit that funds the escrow.
func (e *L1Env) Deposit(from sim.Account, bridge uint64, to string, denom string, amount math.Int, data []byte) sim.Result {
	return e.L1.Deliver(ophosttypes.NewMsgInitiateTokenDeposit(from.String(), bridge, to, sdk.NewCoin(denom, amount), data))
}

// Escrow returns the bridge escrow's balances.
// refBridgeAddr: a bridge's escrow address derived by the independent implementation (ADR-028 module sub-address), not by
// the function under test.
func refBridgeAddr(bridge uint64) sdk.AccAddress { return sdk.AccAddress(ref.BridgeAddress(bridge)) }

func (e *L1Env) Escrow(bridge uint64) sdk.Coins {
	return e.L1.BK.GetAllBalances(e.L1.Ctx, refBridgeAddr(bridge))
}
