package props

import (
	"fmt"
	"sort"
	"strconv"
	"strings"

	"cosmossdk.io/math"
	storetypes "cosmossdk.io/store/types"
	sdk "github.com/cosmos/cosmos-sdk/types"
	"github.com/cosmos/cosmos-sdk/types/bech32"
	sdktx "github.com/cosmos/cosmos-sdk/types/tx"
	authtypes "github.com/cosmos/cosmos-sdk/x/auth/types"
	banktypes "github.com/cosmos/cosmos-sdk/x/bank/types"

	opchildtypes "github.com/initia-labs/OPinit/x/opchild/types"

	"verifharness/mon"
	"verifharness/sim"
)

func init() { register("C07", "fault_enumeration", checkC07) }

type c07Snap struct {
	bal    map[string]sdk.Coins
	supply sdk.Coins
	l1, l2 uint64
	auth   []sim.KV
}

func c07Snapshot(e *L2Env) c07Snap {
	return c07Snap{bal: sim.AllBalances(e.L2.Ctx, e.L2.BK), supply: sim.Supply(e.L2.Ctx, e.L2.BK), l1: e.NextL1Seq(), l2: e.NextL2Seq(), auth: e.L2.Dump(authtypes.StoreKey)}
}

// c07Case is one deposit the L1 could have emitted, plus what the harness knows about it.
type c07Case struct {
	name       string
	msg        *opchildtypes.MsgFinalizeTokenDeposit
	signer     *sim.Account // hook signer (nil if none)
	hookXfer   int64        // amount each hook MsgSend moves (0 = no valid hook)
	hookMsgs   int
	expect     string // "CREDIT", "REFUND" or "" (either)
	hookFailAt int    // SendHook fails at this call (1-based), 0 = never
	hookMode   string // "", "err", "panic", "burn"
	hookMaxGas uint64 // param override (0 = keep)
	setZeroGas bool
}

// classify decides CREDIT / REFUND / ILLEGAL from observables only.
func c07Classify(cs *c07Case, before, after c07Snap, res sim.Result, hookTarget string) (string, string) {
	if res.Class != sim.OK {
		return "HANDLER-" + strings.ToUpper(res.Class.String()), res.ErrString()
	}
	resp, ok := res.Resp().(*opchildtypes.MsgFinalizeTokenDepositResponse)
	if !ok || resp.Result != opchildtypes.SUCCESS {
		return "ILLEGAL", "response is not SUCCESS"
	}
	if after.l1 != before.l1+1 {
		return "ILLEGAL", fmt.Sprintf("next L1 sequence %d -> %d", before.l1, after.l1)
	}
	denom, amt := cs.msg.Amount.Denom, cs.msg.Amount.Amount
	// balance deltas
	deltas := map[string]map[string]string{}
	addrs := map[string]struct{}{}
	for a := range before.bal {
		addrs[a] = struct{}{}
	}
	for a := range after.bal {
		addrs[a] = struct{}{}
	}
	for a := range addrs {
		d := coinsDelta(before.bal[a], after.bal[a])
		if len(d) > 0 {
			deltas[a] = map[string]string{}
			for k, v := range d {
				deltas[a][k] = v.String()
			}
		}
	}
	supplyDelta := coinsDelta(before.supply, after.supply)
	wevs := res.EventsOfType(opchildtypes.EventTypeInitiateTokenWithdrawal)
	devs := res.EventsOfType(opchildtypes.EventTypeFinalizeTokenDeposit)
	if len(devs) != 1 {
		return "ILLEGAL", fmt.Sprintf("%d finalize_token_deposit events", len(devs))
	}
	succ, _ := sim.Attr(devs[0], opchildtypes.AttributeKeySuccess)

	if len(wevs) == 0 {
		// CREDIT candidate
		if after.l2 != before.l2 {
			return "ILLEGAL", "L2 sequence advanced without a withdrawal event"
		}
		if succ != "true" {
			return "ILLEGAL", "no refund recorded although the deposit event says success=" + succ
		}
		wantSupply := ""
		if amt.IsPositive() {
			wantSupply = denom + "+" + amt.String()
		}
		if deltaString(supplyDelta) != wantSupply {
			return "ILLEGAL", fmt.Sprintf("credit: supply changed by [%s], expected [%s]", deltaString(supplyDelta), wantSupply)
		}
		// allowed: recipient +amount, optionally minus hook transfers that arrive at hookTarget
		exp := expectDelta{}
		exp.add(cs.msg.To, denom, amt.BigInt())
		okPlain := sameDeltas(deltas, exp)
		okHook := false
		if cs.hookXfer > 0 && len(cs.msg.Data) > 0 {
			h := math.NewInt(cs.hookXfer * int64(cs.hookMsgs))
			exp2 := expectDelta{}
			exp2.add(cs.msg.To, denom, amt.Sub(h).BigInt())
			exp2.add(hookTarget, denom, h.BigInt())
			okHook = sameDeltas(deltas, exp2)
		}
		if !okPlain && !okHook {
			return "ILLEGAL", fmt.Sprintf("credit: balance deltas %v are neither the plain credit nor credit+hook transfers", deltas)
		}
		if okHook {
			return "CREDIT", "hook applied"
		}
		if len(cs.msg.Data) > 0 {
			return "ILLEGAL", "deposit event says the hook succeeded but none of its effects are present"
		}
		return "CREDIT", ""
	}
	// REFUND candidate
	if len(wevs) != 1 {
		return "ILLEGAL", fmt.Sprintf("%d withdrawal events", len(wevs))
	}
	if len(deltas) != 0 || len(supplyDelta) != 0 {
		return "ILLEGAL", fmt.Sprintf("refund recorded but balances changed %v / supply changed [%s]", deltas, deltaString(supplyDelta))
	}
	if after.l2 != before.l2+1 {
		return "ILLEGAL", fmt.Sprintf("refund: L2 sequence %d -> %d", before.l2, after.l2)
	}
	if succ != "false" {
		return "ILLEGAL", "refund recorded although the deposit event says success=" + succ
	}
	w := wevs[0]
	want := map[string]string{
		opchildtypes.AttributeKeyFrom:       cs.msg.To,
		opchildtypes.AttributeKeyTo:         cs.msg.From,
		opchildtypes.AttributeKeyDenom:      denom,
		opchildtypes.AttributeKeyBaseDenom:  cs.msg.BaseDenom,
		opchildtypes.AttributeKeyAmount:     amt.String(),
		opchildtypes.AttributeKeyL2Sequence: strconv.FormatUint(before.l2, 10),
	}
	for k, v := range want {
		got, _ := sim.Attr(w, k)
		if got != v {
			return "ILLEGAL", fmt.Sprintf("refund withdrawal event %s=%q, expected %q", k, got, v)
		}
	}
	return "REFUND", ""
}

func sameDeltas(got map[string]map[string]string, exp expectDelta) bool {
	if len(got) != len(exp) {
		return false
	}
	for a, m := range exp {
		g := got[a]
		if len(g) != len(m) {
			return false
		}
		for d, v := range m {
			if g[d] != v.String() {
				return false
			}
		}
	}
	return true
}

// authDiffOK: only the hook signer's account (sequence / pubkey), a newly created recipient account
// and the global account-number counter may differ.
func c07AuthDiffOK(e *L2Env, before, after c07Snap, cs *c07Case, alsoAllowed string) (bool, string) {
	for _, d := range sim.DiffKV(before.auth, after.auth) {
		if len(d.Key) > 0 && d.Key[0] == authtypes.AddressStoreKeyPrefix[0] {
			addr := sdk.AccAddress(d.Key[1:]).String()
			if addr == cs.msg.To || (cs.signer != nil && addr == cs.signer.String()) || (alsoAllowed != "" && addr == alsoAllowed) {
				continue
			}
			return false, "account " + addr + " changed"
		}
	}
	return true, ""
}

type c07 struct {
	preGas     uint64 // when > 0, runCase delivers on a meter that already consumed this much
	run        *mon.Run
	rng        *mon.Rand
	base       *L2Env
	hookTarget sim.Account
	siteTable  map[string]map[string]int // site → outcome → count
	existing   sim.Account
}

func regionOf(calls []sim.Call, idx int) string {
	// walk from the start, tracking the innermost opchild-level region
	region := "pre"
	hookStarted := false
	for i := 0; i <= idx && i < len(calls); i++ {
		c := calls[i]
		switch c.Layer {
		case "opchild.bank":
			switch c.Name {
			case "MintCoins", "SendCoinsFromModuleToAccount":
				region = "deposit"
			case "HasDenomMetaData", "SetDenomMetaData":
				region = "meta"
			case "SendCoinsFromAccountToModule", "BurnCoins":
				region = "reclaim"
			default:
				region = "other"
			}
			hookStarted = false
		case "opchild.acct":
			region = "zeroacct"
			hookStarted = false
		case "ante.acct", "hook":
			region = "hook"
			hookStarted = true
		case "bank.acct":
			if hookStarted {
				region = "hook"
			}
		}
	}
	return region
}

func (c *c07) runCase(cs *c07Case, faultAt int, kind sim.FaultKind) (outcome, detail string, res sim.Result, calls []sim.Call, fired bool, firedCall sim.Call, before, after c07Snap, env *L2Env) {
	env = c.base.Branch()
	l2 := env.L2
	if cs.hookMaxGas > 0 || cs.setZeroGas {
		p, _ := l2.K.GetParams(l2.Ctx)
		p.HookMaxGas = cs.hookMaxGas
		if r := l2.Deliver(opchildtypes.NewMsgUpdateParams(l2.Authority, &p)); r.Class != sim.OK {
			panic(r.ErrString())
		}
	}
	before = c07Snapshot(env)
	nSend := 0
	*l2.SendHook = func(ctx sdk.Context, m *banktypes.MsgSend) error {
		nSend++
		if cs.hookFailAt > 0 && nSend == cs.hookFailAt {
			switch cs.hookMode {
			case "panic":
				panic("verif: hook message panics")
			case "burn":
				ctx.GasMeter().ConsumeGas(1<<40, "verif burn")
			default:
				return fmt.Errorf("verif: hook message %d fails", nSend)
			}
		}
		return nil
	}
	l2.F.Arm(faultAt, kind)
	if c.preGas > 0 {
		res = l2.DeliverGasPre(200_000_000+c.preGas, c.preGas, cs.msg)
	} else {
		res = l2.DeliverGas(200_000_000, cs.msg)
	}
	calls = append([]sim.Call(nil), l2.F.Calls...)
	fired, firedCall = l2.F.Fired, l2.F.FiredC
	l2.F.Disarm()
	*l2.SendHook = nil
	after = c07Snapshot(env)
	outcome, detail = c07Classify(cs, before, after, res, c.hookTarget.String())
	return
}

func (c *c07) gasCheck(cs *c07Case, res sim.Result, baseline uint64, tr []string) {
	p := opchildtypes.DefaultHookMaxGas
	if cs.hookMaxGas > 0 {
		p = cs.hookMaxGas
	}
	if cs.setZeroGas {
		p = 0
	}
	var hook uint64
	for _, g := range res.GasLog {
		if g.Desc == "bridge hook" {
			hook += g.Amount
		}
	}
	if len(cs.msg.Data) > 0 {
		c.run.Check("C07.hook_gas_bounded", hook <= p, "c07.hook_gas", tr, "hook charged %d gas on the outer meter, HookMaxGas is %d", hook, p)
		c.run.Check("C07.total_gas_bounded", res.GasUsed <= 2*baseline+p+100_000, "c07.total_gas", tr, "deposit with hook consumed %d gas; same deposit without payload %d, HookMaxGas %d", res.GasUsed, baseline, p)
	}
}

// nextDepositProbe: the bridge did not stall — the next sequence is still processable.
func (c *c07) nextDepositProbe(env *L2Env, tr []string) {
	br := env.Branch()
	seq := br.NextL1Seq()
	r := br.L2.Deliver(br.DepositMsg(br.Executors[1], seq, "l1probe", br.Users[4].String(), "uinit", math.NewInt(7), nil))
	c.run.Check("C07.bridge_not_stalled", r.Class == sim.OK && br.NextL1Seq() == seq+1, "c07.stalled", tr, "after the deposit the next sequence %d cannot be processed: %s", seq, r.ErrString())
}

func (c *c07) exercise(cs *c07Case, enumerateFaults bool) {
	run := c.run
	// fault-free run (records the call list)
	outcome, detail, res, calls, _, _, before, after, env := c.runCase(cs, -1, sim.FaultError)
	run.Evaluations++
	tr := []string{fmt.Sprintf("case %s: to=%q amount=%s data=%dB hookFailAt=%d/%s -> %s %s (%s)", cs.name, short(cs.msg.To), cs.msg.Amount.Amount, len(cs.msg.Data), cs.hookFailAt, cs.hookMode, outcome, detail, res.ErrString())}
	legal := outcome == "CREDIT" || outcome == "REFUND"
	run.Check("C07.outcome_is_credit_or_refund", legal, "c07.illegal_outcome."+outcome, tr, "fault-free deposit ended %s: %s", outcome, detail)
	if legal && cs.expect != "" {
		run.Check("C07.expected_outcome", outcome == cs.expect, "c07.unexpected_outcome", tr, "expected %s, observed %s", cs.expect, outcome)
	}
	if legal {
		allowed := ""
		if outcome == "CREDIT" && detail == "hook applied" {
			allowed = c.hookTarget.String() // the hook's own transfer may create its target account
		}
		ok, why := c07AuthDiffOK(env, before, after, cs, allowed)
		run.Check("C07.only_signer_account_touched", ok, "c07.auth_diff", tr, "auth store: %s", why)
		c.nextDepositProbe(env, tr)
		// baseline gas: same deposit without payload
		if len(cs.msg.Data) > 0 {
			plain := *cs.msg
			plain.Data = nil
			b := c.base.Branch()
			rb := b.L2.DeliverGas(200_000_000, &plain)
			c.gasCheck(cs, res, rb.GasUsed, tr)
			// the same deposit as a later message of a transaction whose meter already carries consumption: outcome, gas
			// charged for it and the hook's charge must be the same
			const pre = 7_000_000
			c.preGas = pre
			o2, d2, r2, _, _, _, _, _, _ := c.runCase(cs, -1, sim.FaultError)
			c.preGas = 0
			run.Evaluations++
			ptr := append(append([]string(nil), tr...), fmt.Sprintf("same message on a meter that already consumed %d gas -> %s %s, gas %d (fresh meter: %d)", pre, o2, d2, r2.GasUsed-pre, res.GasUsed))
			run.Check("C07.gas_independent_of_earlier_consumption", o2 == outcome && r2.GasUsed-pre == res.GasUsed, "c07.gas_depends_on_meter_history", ptr, "outcome/gas of the deposit depend on what the transaction's meter had consumed before: %s/%d vs %s/%d", outcome, res.GasUsed, o2, r2.GasUsed-pre)
			r2.GasUsed -= pre
			c.gasCheck(cs, r2, rb.GasUsed, ptr)
		}
	}
	run.Distinct("case/" + cs.name + "/" + outcome)
	if !enumerateFaults || !legal {
		return
	}
	for k := range calls {
		for _, kind := range []sim.FaultKind{sim.FaultError, sim.FaultPanic} {
			if kind == sim.FaultError && !calls[k].CanErr {
				continue
			}
			o2, d2, r2, calls2, fired, fc, _, _, env2 := c.runCase(cs, k, kind)
			run.Evaluations++
			if !fired {
				continue
			}
			region := regionOf(calls2, k)
			site := fc.Site()
			if c.siteTable[region+":"+site] == nil {
				c.siteTable[region+":"+site] = map[string]int{}
			}
			c.siteTable[region+":"+site][kind.String()+"->"+o2]++
			ftr := append(append([]string(nil), tr...), fmt.Sprintf("fault %s at call #%d %s (region %s) -> %s %s %s", kind, k, site, region, o2, d2, r2.ErrString()))
			run.Distinct(fmt.Sprintf("fault/%s/%s/%d/%s", cs.name, site, k, kind))
			switch region {
			case "deposit", "hook":
				run.Check("C07.contained_fault_refunds", o2 == "REFUND", "c07.contained."+region+"."+fc.Name+"."+o2, ftr, "fault (%s) at %s inside the %s step was not contained: outcome %s %s", kind, site, region, o2, d2)
				if o2 == "REFUND" {
					c.nextDepositProbe(env2, ftr)
				}
			default:
				// sites outside the contained sentence: legal outcome, or an atomic error after which the same message succeeds
				if o2 == "CREDIT" || o2 == "REFUND" {
					run.Hit("C07.uncontained_site_legal_or_atomic")
				} else if strings.HasPrefix(o2, "HANDLER-") {
					// retry the identical message with the fault withdrawn (the failed attempt left nothing behind: harness rollback)
					o3, d3, _, _, _, _, _, _, _ := c.runCase(cs, -1, sim.FaultError)
					run.Check("C07.uncontained_site_legal_or_atomic", o3 == "CREDIT" || o3 == "REFUND", "c07.retry_fails", ftr, "retry after transient fault ended %s %s", o3, d3)
				} else {
					run.Check("C07.uncontained_site_legal_or_atomic", false, "c07.uncontained_illegal."+region+"."+fc.Name, ftr, "fault at %s produced an illegal successful outcome: %s", site, d2)
				}
			}
			if run.TooMany() {
				return
			}
		}
	}
}

// wrongPrefixAddr re-encodes a valid address under another bech32 prefix.
func wrongPrefixAddr(a sdk.AccAddress) string {
	s, err := bech32.ConvertAndEncode("init", a)
	if err != nil {
		panic(err)
	}
	return s
}

func (c *c07) signerAccNum(cs *c07Case) (uint64, uint64) {
	// dry run without payload on a branch to learn the account number the signer will have
	plain := *cs.msg
	plain.Data = nil
	br := c.base.Branch()
	if r := br.L2.Deliver(&plain); r.Class != sim.OK {
		panic("dry run failed: " + r.ErrString())
	}
	n, s, ok := br.L2.AccNumSeq(cs.signer.Addr)
	if !ok {
		return 0, 0
	}
	return n, s
}

func (c *c07) buildCases(thorough bool) []*c07Case {
	e := c.base
	seq := e.NextL1Seq()
	ex := e.Executors[0]
	var cases []*c07Case
	fresh := sim.NewAccount("c07fresh")
	recips := []struct {
		name, to string
		acct     *sim.Account
		good     bool
		known    bool
	}{
		{"fresh", fresh.String(), &fresh, true, true},
		{"existing", c.existing.String(), &c.existing, true, true},
		{"wrongprefix", wrongPrefixAddr(fresh.Addr), nil, false, true},
		{"text", "hello world", nil, false, true},
		{"long", strings.Repeat("x", 3000), nil, false, true},
		{"blocked-feecollector", authtypes.NewModuleAddress(authtypes.FeeCollectorName).String(), nil, false, true},
		{"blocked-holder-distribution", authtypes.NewModuleAddress("distribution").String(), nil, false, true},
		{"opchild-module", e.L2.Authority, nil, false, true},
		{"nonascii", "é中🙂", nil, false, true},
	}
	two63 := math.NewIntFromUint64(1 << 63)
	amounts := []struct {
		name string
		v    math.Int
	}{{"0", math.ZeroInt()}, {"1", math.OneInt()}, {"mid", math.NewInt(1_000_000)}, {"2^63", two63}, {"2^64-1", two63.MulRaw(2).SubRaw(1)}}
	for _, r := range recips {
		for _, a := range amounts {
			mk := func(payload string) *c07Case {
				cs := &c07Case{name: r.name + "/" + a.name + "/" + payload}
				cs.msg = e.DepositMsg(ex, seq, "l1sender-"+payload, r.to, "uinit", a.v, nil)
				return cs
			}
			// no payload
			cs := mk("none")
			if r.good {
				cs.expect = "CREDIT"
			} else if a.v.IsPositive() {
				cs.expect = "REFUND"
			} else if r.name == "wrongprefix" || r.name == "text" || r.name == "long" || r.name == "nonascii" {
				cs.expect = "REFUND" // the recipient string cannot be decoded at all
			}
			cases = append(cases, cs)
			// undecodable payloads
			cs = mk("random-bytes")
			cs.msg.Data = c.rng.Bytes(40)
			if !r.good && (a.v.IsPositive() || r.acct == nil && r.name != "blocked-feecollector" && r.name != "opchild-module") {
				cs.expect = "REFUND"
			} else if r.good {
				cs.expect = "REFUND" // an undecodable hook is a failing hook
			}
			cases = append(cases, cs)
			if r.acct == nil {
				continue
			}
			// signed hook transactions from the recipient
			xfer := int64(1)
			if a.v.IsZero() {
				continue // nothing to move; covered by none/random-bytes
			}
			type hk struct {
				name    string
				msgs    int
				failAt  int
				mode    string
				badSig  string
				expect  string
				maxGas  uint64
				zeroGas bool
			}
			hooks := []hk{
				{name: "hook-ok", msgs: 1, expect: "CREDIT"},
				{name: "hook-ok-3msgs", msgs: 3, expect: "CREDIT"},
				{name: "hook-fail-1of1", msgs: 1, failAt: 1, mode: "err", expect: "REFUND"},
				{name: "hook-fail-1of3", msgs: 3, failAt: 1, mode: "err", expect: "REFUND"},
				{name: "hook-fail-2of3", msgs: 3, failAt: 2, mode: "err", expect: "REFUND"},
				{name: "hook-fail-3of3", msgs: 3, failAt: 3, mode: "err", expect: "REFUND"},
				{name: "hook-panic-2of3", msgs: 3, failAt: 2, mode: "panic", expect: "REFUND"},
				{name: "hook-outofgas-2of3", msgs: 3, failAt: 2, mode: "burn", expect: "REFUND"},
				{name: "hook-tiny-maxgas", msgs: 1, maxGas: 1000, expect: "REFUND"},
				{name: "hook-zero-maxgas", msgs: 1, zeroGas: true, expect: "REFUND"},
				{name: "hook-wrong-key", msgs: 1, badSig: "key", expect: "REFUND"},
				{name: "hook-wrong-chain", msgs: 1, badSig: "chain", expect: "REFUND"},
				{name: "hook-wrong-sequence", msgs: 1, badSig: "seq", expect: "REFUND"},
				{name: "hook-unsigned", msgs: 1, badSig: "unsigned", expect: "REFUND"},
				{name: "hook-truncated", msgs: 1, badSig: "truncated", expect: "REFUND"},
				{name: "hook-overspend", msgs: 1, badSig: "overspend", expect: "REFUND"},
				{name: "hook-bad-signer-string", msgs: 1, badSig: "badfrom", expect: "REFUND"},
				{name: "hook-withdraw-then-fail", msgs: 2, badSig: "withdraw-then-fail", expect: "REFUND"},
				{name: "hook-empty-signer-string", msgs: 1, badSig: "emptyfrom", expect: "REFUND"},
				// the hook fails with a long failure text that is not ASCII (the bank echoes the invalid denom / the memo-like
				// recipient): the reason is cut to its limit and reported, like any other
				{name: "hook-multibyte-denom", msgs: 1, badSig: "multibyte-denom", expect: "REFUND"},
				{name: "hook-multibyte-denom-2of2", msgs: 2, badSig: "multibyte-denom", expect: "REFUND"},
			}
			for _, h := range hooks {
				cs := mk(h.name)
				cs.signer = r.acct
				cs.hookMsgs, cs.hookFailAt, cs.hookMode, cs.expect = h.msgs, h.failAt, h.mode, h.expect
				cs.hookMaxGas, cs.setZeroGas = h.maxGas, h.zeroGas
				cs.hookXfer = xfer
				if a.v.LT(math.NewInt(xfer*int64(h.msgs))) && cs.expect == "CREDIT" {
					cs.expect = "" // the hook's own transfers exceed the deposit: either outcome is legal
				}
				accNum, accSeq := c.signerAccNum(cs)
				var msgs []sdk.Msg
				amt := math.NewInt(xfer)
				if h.badSig == "overspend" {
					amt = a.v.AddRaw(1_000_000_000_000)
					if r.name == "existing" {
						amt = amt.MulRaw(1_000_000)
					}
				}
				for i := 0; i < h.msgs; i++ {
					msgs = append(msgs, banktypes.NewMsgSend(r.acct.Addr, c.hookTarget.Addr, sdk.NewCoins(sdk.NewCoin(cs.msg.Amount.Denom, amt))))
				}
				if h.badSig == "multibyte-denom" {
					// 60 three-byte characters: more than 128 bytes, fewer than 128 characters
					msgs[len(msgs)-1] = &banktypes.MsgSend{FromAddress: r.acct.String(), ToAddress: c.hookTarget.String(), Amount: sdk.Coins{sdk.Coin{Denom: strings.Repeat("中", 60), Amount: math.NewInt(1)}}}
				}
				if h.badSig == "withdraw-then-fail" {
					// first message: a withdrawal that would succeed on its own; second: a transfer that cannot be paid
					msgs = []sdk.Msg{
						opchildtypes.NewMsgInitiateTokenWithdrawal(r.acct.String(), "l1-recipient-of-hook", sdk.NewCoin(cs.msg.Amount.Denom, math.NewInt(1))),
						banktypes.NewMsgSend(r.acct.Addr, c.hookTarget.Addr, sdk.NewCoins(sdk.NewCoin(cs.msg.Amount.Denom, a.v.AddRaw(1_000_000_000_000).MulRaw(1_000_000)))),
					}
				}
				signer, chain := *r.acct, sim.L2ChainID
				switch h.badSig {
				case "key":
					other := sim.NewAccount("c07wrongkey")
					signer.Priv = other.Priv // signs with another key but claims r's pubkey
				case "chain":
					chain = "another-chain"
				case "seq":
					accSeq += 5
				}
				bz, err := e.L2.SignTx(signer, accNum, accSeq, chain, 500_000, msgs...)
				if err != nil {
					panic(err)
				}
				if h.badSig == "unsigned" {
					b := e.L2.Enc.TxConfig.NewTxBuilder()
					_ = b.SetMsgs(msgs...)
					bz, _ = e.L2.Enc.TxConfig.TxEncoder()(b.GetTx())
				}
				if h.badSig == "truncated" {
					bz = bz[:len(bz)/2]
				}
				if h.badSig == "badfrom" || h.badSig == "emptyfrom" {
					// a tx whose message names a signer string that is not an address at all
					bad := "this-is-not-bech32"
					if h.badSig == "emptyfrom" {
						bad = ""
					}
					bz = rewriteFrom(e, bz, bad)
				}
				cs.msg.Data = bz
				cases = append(cases, cs)
			}
		}
	}
	// a bridged denom whose bank metadata already exists (set by bank genesis or another module) before its first deposit
	for _, r := range recips {
		// L1 puts no bound on a deposit's payload: large ones (undecodable) must be handled like small ones
		for _, size := range []int{16 * 1024, 16*1024 + 1, 70_000, 1 << 20} {
			cs := &c07Case{name: fmt.Sprintf("%s/mid/random-bytes-%d", r.name, size)}
			cs.msg = e.DepositMsg(ex, seq, "l1sender-big", r.to, "uinit", math.NewInt(1_000_000), c.rng.Bytes(size))
			cs.expect = "REFUND"
			cases = append(cases, cs)
		}
		// the first deposit ever of a denom (nothing registered for it yet), incl. an empty one and a denom of maximal length
		for di, fresh := range []string{"ufresh", "factory/" + strings.Repeat("q", 120)} {
			for _, amt := range []int64{0, 1_000_000} {
				for _, payload := range []string{"none", "random-bytes"} {
					cs := &c07Case{name: fmt.Sprintf("%s/%d/%s/first-deposit-of-denom-%d", r.name, amt, payload, di)}
					cs.msg = e.DepositMsg(ex, seq, "l1sender-fresh", r.to, fresh, math.NewInt(amt), nil)
					if payload == "random-bytes" {
						cs.msg.Data = c.rng.Bytes(24)
					}
					if amt == 0 {
						cs.expect = "" // an empty deposit is credited or refunded; both are legal outcomes for any recipient
					} else if r.good && payload == "none" {
						cs.expect = "CREDIT"
					} else {
						cs.expect = "REFUND"
					}
					cases = append(cases, cs)
				}
			}
		}
		for _, payload := range []string{"none", "random-bytes"} {
			cs := &c07Case{name: r.name + "/mid/" + payload + "/premeta-denom"}
			cs.msg = e.DepositMsg(ex, seq, "l1sender-premeta", r.to, "upremeta", math.NewInt(1_000_000), nil)
			if payload == "random-bytes" {
				cs.msg.Data = c.rng.Bytes(24)
			}
			if r.good && payload == "none" {
				cs.expect = "CREDIT"
			} else {
				cs.expect = "REFUND"
			}
			cases = append(cases, cs)
		}
	}
	return cases
}

func checkC07(run *mon.Run, rng *mon.Rand, thorough bool) {
	run.Rule = "input classes = recipient {fresh, existing, wrong-prefix bech32, text, 3000 chars, non-ASCII, blocked fee collector, opchild module} x amount {0,1,1e6,2^63,2^64-1} x payload {none, random bytes, valid signed hook with 1/3 messages, hook failing/panicking/out-of-gas at message j, HookMaxGas tiny/zero, wrong key/chain/sequence, unsigned, truncated, overspending}; for each class a fault-free run records the ordered bank/account-keeper calls (four proxy layers: opchild->bank, opchild->auth, bank->auth, ante->auth, plus the hook's bank MsgSend) and then an error and a panic are injected at every call index. An outcome classifier over balances/supply/sequences/events decides CREDIT / REFUND / illegal. Distinct non-trivial = (class, site, call index, kind) whose fault actually fired Plus: every payload class re-run on a meter that already consumed 7M gas (same outcome, same gas), payloads up to 1 MiB, and a stale-hook replay scenario."
	run.Assumptions = []string{"outer gas limit 200M covers handler + hook allowance (premise of the property)",
		"sites outside the sentence 'failing hook or failing mint/transfer' (zero-amount account creation, denom metadata, reclaim/burn) are asserted as legal-outcome-or-atomic-error-with-successful-retry; see DESIGN.md C07",
		"a newly created recipient account may remain after a refund (balances, supply and hook-target state may not)"}
	for _, c := range []string{"C07.outcome_is_credit_or_refund", "C07.expected_outcome", "C07.only_signer_account_touched", "C07.bridge_not_stalled", "C07.hook_gas_bounded", "C07.total_gas_bounded", "C07.contained_fault_refunds", "C07.uncontained_site_legal_or_atomic", "C07.gas_independent_of_earlier_consumption"} {
		run.Declare(c, 20)
	}
	base := newL2Env(L2EnvOpts{})
	c := &c07{run: run, rng: rng, base: base, hookTarget: sim.NewAccount("c07hooktarget"), siteTable: map[string]map[string]int{}, existing: base.Users[0]}
	// the existing recipient already holds bridged and native funds; two earlier deposits processed
	base.L2.Fund(c.existing.Addr, sdk.NewCoin("unative", math.NewInt(1000)))
	for i := 0; i < 2; i++ {
		if r := base.L2.Deliver(base.DepositMsg(base.Executors[0], base.NextL1Seq(), "l1x", c.existing.String(), "uinit", math.NewInt(5000), nil)); r.Class != sim.OK {
			// the plainest deposit there is, relayed in order by the first configured executor, to an existing account
			run.Fail("C07.bridge_not_stalled", "c07.plain_deposit_failed", []string{fmt.Sprintf("deposit %d of 5000 uinit to an existing account by executor[0] of %d configured executors -> %s", i+1, len(base.Executors), r.ErrString())}, "a plain in-order deposit relayed by a configured executor failed (the bridge is stalled): %s", r.ErrString())
			return
		}
	}
	// a blocked module account that already holds bridged tokens (e.g. collected fees)
	base.L2.FundModule("distribution", sdk.NewCoin(base.L2Denom("uinit"), math.NewIntFromUint64(1<<63).MulRaw(4)))
	base.L2.BK.SetDenomMetaData(base.L2.Ctx, banktypes.Metadata{Base: base.L2Denom("upremeta"), Display: "premeta", Name: "pre-registered", Symbol: "PRE",
		DenomUnits: []*banktypes.DenomUnit{{Denom: base.L2Denom("upremeta"), Exponent: 0}, {Denom: "premeta", Exponent: 6}}})
	c07StaleHook(run, base)
	c07EmptyDepositToModuleAddress(run)
	cases := c.buildCases(thorough)
	run.Extra["input_classes"] = len(cases)
	for _, cs := range cases {
		// quick: fault enumeration on every third class (all classes still get the fault-free run); thorough: all
		enum := true
		c.exercise(cs, enum)
		if run.TooMany() {
			break
		}
	}
	// ---- payload byte fuzz: every mutation of a valid signed hook tx must still end CREDIT or REFUND ----
	run.Declare("C07.payload_fuzz_legal", 50)
	var seed *c07Case
	for _, cs := range cases {
		if cs.name == "existing/mid/hook-ok" {
			seed = cs
		}
	}
	if seed != nil && !run.TooMany() {
		stride := pick(thorough, 3, 1)
		masks := []byte{0x01, 0x80, 0xff}
		if !thorough {
			masks = masks[:1]
		}
		outcomes := map[string]int{}
		for pos := int(uint64(run.Seed) % uint64(stride)); pos < len(seed.msg.Data); pos += stride {
			for _, mk := range masks {
				m := *seed.msg
				m.Data = append([]byte(nil), seed.msg.Data...)
				m.Data[pos] ^= mk
				cs := *seed
				cs.msg = &m
				cs.name = fmt.Sprintf("fuzz/%d/%02x", pos, mk)
				o, d, res, _, _, _, _, _, _ := c.runCase(&cs, -1, sim.FaultError)
				run.Evaluations++
				outcomes[o]++
				run.Check("C07.payload_fuzz_legal", o == "CREDIT" || o == "REFUND", "c07.fuzz_illegal."+o, []string{fmt.Sprintf("valid hook tx with byte %d xor %02x -> %s %s %s", pos, mk, o, d, res.ErrString()), fmt.Sprintf("payload=%x", m.Data), res.Stack}, "mutated hook payload ended %s: %s", o, d)
				run.Distinct(fmt.Sprintf("fuzz/%d/%02x/%s", pos, mk, o))
			}
		}
		for i := 0; i < pick(thorough, 200, 150000); i++ {
			m := *seed.msg
			m.Data = rng.Bytes(1 + rng.Intn(600))
			if rng.Bool() { // truncated / extended valid bytes
				cut := rng.Intn(len(seed.msg.Data))
				m.Data = append(append([]byte(nil), seed.msg.Data[:cut]...), rng.Bytes(rng.Intn(8))...)
			}
			cs := *seed
			cs.msg = &m
			o, d, res, _, _, _, _, _, _ := c.runCase(&cs, -1, sim.FaultError)
			run.Evaluations++
			outcomes[o]++
			run.Check("C07.payload_fuzz_legal", o == "CREDIT" || o == "REFUND", "c07.fuzz_illegal."+o, []string{fmt.Sprintf("random payload %x -> %s %s %s", m.Data, o, d, res.ErrString())}, "random hook payload ended %s: %s", o, d)
		}
		run.Extra["payload_fuzz_outcomes"] = outcomes
	}

	// per-site outcome table
	table := map[string]interface{}{}
	keys := make([]string, 0, len(c.siteTable))
	for k := range c.siteTable {
		keys = append(keys, k)
	}
	sort.Strings(keys)
	names := map[string]map[string]bool{}
	for _, k := range keys {
		table[k] = c.siteTable[k]
		site := k[strings.Index(k, ":")+1:]
		if names[site] == nil {
			names[site] = map[string]bool{}
		}
		for o := range c.siteTable[k] {
			names[site][strings.SplitN(o, "->", 2)[0]] = true
		}
	}
	run.Extra["fault_sites"] = table
	run.Extra["fault_site_count"] = len(names)
	run.Sample(map[string]interface{}{"class": "existing/mid/hook-fail-2of3", "fault": "panic at call #k for every k in the recorded call list"})
	_ = storetypes.Gas(0)
}

// rewriteFrom replaces the from_address of the first MsgSend inside signed tx bytes (signatures are kept as they are).
// c07StaleHook: a well-signed hook that fails at message execution consumes its signer's sequence, so the same payload
// can never run later (when the signer could afford it), whoever attaches it to whatever deposit.
func c07StaleHook(run *mon.Run, base *L2Env) {
	run.Declare("C07.failed_hook_consumes_signer_sequence", 4)
	run.Declare("C07.stale_hook_not_replayable", 4)
	for vi, variant := range []string{"overspend", "second-message-fails"} {
		for _, later := range []string{"zero-amount deposit by a stranger", "ordinary deposit"} {
			e := base.Branch()
			l2 := e.L2
			u, target := e.Users[2], sim.NewAccount("c07-stale-target")
			d := e.L2Denom("uinit")
			l2.Fund(u.Addr, sdk.NewCoin(d, math.NewInt(10)))
			n, sq, ok := l2.AccNumSeq(u.Addr)
			if !ok {
				panic("no account")
			}
			msgs := []sdk.Msg{banktypes.NewMsgSend(u.Addr, target.Addr, sdk.NewCoins(sdk.NewCoin(d, math.NewInt(5_000))))}
			if variant == "second-message-fails" {
				msgs = []sdk.Msg{banktypes.NewMsgSend(u.Addr, target.Addr, sdk.NewCoins(sdk.NewCoin(d, math.NewInt(3)))), banktypes.NewMsgSend(u.Addr, target.Addr, sdk.NewCoins(sdk.NewCoin(d, math.NewInt(5_000))))}
			}
			payload, err := l2.SignTx(u, n, sq, sim.L2ChainID, 500_000, msgs...)
			if err != nil {
				panic(err)
			}
			r1 := l2.DeliverGas(200_000_000, e.DepositMsg(e.Executors[0], e.NextL1Seq(), "l1sender", u.String(), "uinit", math.NewInt(100), payload))
			run.Evaluations++
			_, sq1, _ := l2.AccNumSeq(u.Addr)
			tr := []string{fmt.Sprintf("deposit of 100 to a recipient holding 10, hook [%s] signed with sequence %d -> %s %s; recipient holds %s, signer sequence now %d", variant, sq, r1.Class, r1.ErrString(), l2.BK.GetBalance(l2.Ctx, u.Addr, d).Amount, sq1)}
			if r1.Class != sim.OK || !l2.BK.GetBalance(l2.Ctx, u.Addr, d).Amount.Equal(math.NewInt(10)) {
				run.Count("C07.stale_hook_scenario_not_as_scripted")
				continue // the classifier of the main section judges this; the scenario needs a refunded deposit
			}
			run.Check("C07.failed_hook_consumes_signer_sequence", sq1 == sq+1, "c07.failed_hook_sequence_not_consumed", tr, "a well-signed hook failed at message execution and the deposit was refunded, but the signer's sequence is %d (was %d): the signed payload stays valid", sq1, sq)
			// later the signer can afford the transfer; the stale payload is attached to another deposit
			l2.Fund(u.Addr, sdk.NewCoin(d, math.NewInt(1_000_000)))
			amt, from := math.NewInt(50), "l1sender"
			if later == "zero-amount deposit by a stranger" {
				amt, from = math.ZeroInt(), "l1stranger"
			}
			before := l2.BK.GetBalance(l2.Ctx, target.Addr, d).Amount
			r2 := l2.DeliverGas(200_000_000, e.DepositMsg(e.Executors[0], e.NextL1Seq(), from, u.String(), "uinit", amt, payload))
			run.Evaluations++
			got := l2.BK.GetBalance(l2.Ctx, target.Addr, d).Amount.Sub(before)
			tr = append(tr, fmt.Sprintf("signer funded; the same payload attached to a %s -> %s; the payload's target received %s", later, r2.Class, got))
			run.Check("C07.stale_hook_not_replayable", got.IsZero(), "c07.stale_hook_executed", tr, "a hook payload whose first execution failed was executed later (%s): its transfer of %s went through", later, got)
			run.Distinct(fmt.Sprintf("stale-hook/%d/%s", vi, later))
		}
	}
}

func rewriteFrom(e *L2Env, bz []byte, from string) []byte {
	var raw sdktx.TxRaw
	if err := raw.Unmarshal(bz); err != nil {
		panic(err)
	}
	var body sdktx.TxBody
	if err := body.Unmarshal(raw.BodyBytes); err != nil {
		panic(err)
	}
	var send banktypes.MsgSend
	if err := send.Unmarshal(body.Messages[0].Value); err != nil {
		panic(err)
	}
	send.FromAddress = from
	v, err := send.Marshal()
	if err != nil {
		panic(err)
	}
	body.Messages[0].Value = v
	raw.BodyBytes, err = body.Marshal()
	if err != nil {
		panic(err)
	}
	out, err := raw.Marshal()
	if err != nil {
		panic(err)
	}
	return out
}

// c07EmptyDepositToModuleAddress: on a chain that has not minted anything yet (the module accounts are created on first
// use), an empty deposit names a module address as its recipient. Whatever becomes of that deposit, the deposits after it
// are credited and what they credited can be withdrawn: one deposit never blocks the bridge for the others.
func c07EmptyDepositToModuleAddress(run *mon.Run) {
	run.Declare("C07.empty_deposit_to_module_address_blocks_nothing", 4)
	for _, target := range []string{opchildtypes.ModuleName, authtypes.FeeCollectorName, "distribution", "a-module-nobody-registered"} {
		for _, amt := range []int64{0, 1} {
			e := newL2Env(L2EnvOpts{})
			to := authtypes.NewModuleAddress(target).String()
			tr := []string{fmt.Sprintf("fresh chain (nothing minted yet); deposit #1 of %d uinit to the address of module %q (%s)", amt, target, to)}
			r1 := e.L2.DeliverGas(100_000_000, e.DepositMsg(e.Executors[0], e.NextL1Seq(), "l1sender", to, "uinit", math.NewInt(amt), nil))
			run.Evaluations++
			tr = append(tr, fmt.Sprintf("-> %s %s", r1.Class, r1.ErrString()))
			u := e.Users[0]
			r2 := e.L2.DeliverGas(100_000_000, e.DepositMsg(e.Executors[0], e.NextL1Seq(), "l1sender", u.String(), "uinit", math.NewInt(1000), nil))
			got := e.L2.BK.GetBalance(e.L2.Ctx, u.Addr, e.L2Denom("uinit")).Amount
			tr = append(tr, fmt.Sprintf("deposit #2 of 1000 uinit to an ordinary account -> %s %s; the account holds %s", r2.Class, r2.ErrString(), got))
			if !run.Check("C07.empty_deposit_to_module_address_blocks_nothing", r1.Class == sim.OK && r2.Class == sim.OK && got.Equal(math.NewInt(1000)), "c07.module_address_deposit_blocks_bridge.deposit", tr,
				"after a deposit of %d to the address of module %q a plain deposit to an ordinary account is no longer credited (class %s, balance %s)", amt, target, r2.Class, got) {
				continue
			}
			r3 := e.L2.Deliver(opchildtypes.NewMsgInitiateTokenWithdrawal(u.String(), "l1recipient", sdk.NewCoin(e.L2Denom("uinit"), math.NewInt(10))))
			tr = append(tr, fmt.Sprintf("withdrawal of 10 by that account -> %s %s", r3.Class, r3.ErrString()))
			run.Check("C07.empty_deposit_to_module_address_blocks_nothing", r3.Class == sim.OK, "c07.module_address_deposit_blocks_bridge.withdrawal", tr,
				"after a deposit of %d to the address of module %q the credited tokens cannot be withdrawn: %s", amt, target, r3.ErrString())
			run.Distinct(fmt.Sprintf("module-address/%s/%d", target, amt))
		}
	}
}
