package props

import (
	"bytes"
	"fmt"
	"math/big"

	cometabci "github.com/cometbft/cometbft/abci/types"
	cmtproto "github.com/cometbft/cometbft/proto/tendermint/types"

	cryptocodec "github.com/cosmos/cosmos-sdk/crypto/codec"
	cryptotypes "github.com/cosmos/cosmos-sdk/crypto/types"
	sdk "github.com/cosmos/cosmos-sdk/types"
	protoio "github.com/cosmos/gogoproto/io"
	"github.com/cosmos/gogoproto/proto"

	connectcodec "github.com/skip-mev/connect/v2/abci/strategies/codec"
	"github.com/skip-mev/connect/v2/abci/strategies/currencypair"
	vetypes "github.com/skip-mev/connect/v2/abci/ve/types"
	connecttypes "github.com/skip-mev/connect/v2/pkg/types"
	oracletypes "github.com/skip-mev/connect/v2/x/oracle/types"

	opchildtypes "github.com/initia-labs/OPinit/x/opchild/types"

	"verifharness/sim"
)

const tsPair = "TIMESTAMP/NANOSECOND"

type hostVal struct {
	Priv  cryptotypes.PrivKey
	Pub   cryptotypes.PubKey
	Power int64
}

func (h hostVal) Addr() []byte { return h.Pub.Address().Bytes() }

// OracleEnv is an L2 with the oracle enabled, currency pairs created and a host validator set recorded.
type OracleEnv struct {
	*L2Env
	ClientID   string
	Host       []hostVal
	HostHeight int64
	Pairs      []string // includes the reserved timestamp pair
	strategy   currencypair.CurrencyPairStrategy
	ecCodec    connectcodec.ExtendedCommitCodec
	veCodec    connectcodec.VoteExtensionCodec
}

func newHostVals(powers []int64, gen int) []hostVal {
	out := make([]hostVal, len(powers))
	for i, p := range powers {
		priv, pub := NewConsKey(fmt.Sprintf("host/%d/%d", gen, i))
		out[i] = hostVal{priv, pub, p}
	}
	return out
}

func cmtValSet(vals []hostVal) *cmtproto.ValidatorSet {
	vs := &cmtproto.ValidatorSet{}
	for _, v := range vals {
		pk, err := cryptocodec.ToCmtProtoPublicKey(v.Pub)
		if err != nil {
			panic(err)
		}
		vs.Validators = append(vs.Validators, &cmtproto.Validator{Address: v.Addr(), PubKey: pk, VotingPower: v.Power})
	}
	return vs
}

func newOracleEnv(powers []int64, pairs []string) *OracleEnv {
	o := &OracleEnv{ClientID: "07-tendermint-0", HostHeight: 10}
	o.L2Env = newL2Env(L2EnvOpts{NoBridgeInfo: true})
	l2 := o.L2
	res := l2.Deliver(opchildtypes.NewMsgSetBridgeInfo(o.Executors[0].String(), o.BridgeInfo(o.ClientID, true)))
	if res.Class != sim.OK {
		// see newL2Env: which executor is refused is judged by the authorisation monitors, not by the setup
		res = l2.Deliver(opchildtypes.NewMsgSetBridgeInfo(o.Executors[1].String(), o.BridgeInfo(o.ClientID, true)))
	}
	if res.Class != sim.OK {
		panic(res.ErrString())
	}
	l2.OK.InitGenesis(l2.Ctx, oracletypes.GenesisState{CurrencyPairGenesis: []oracletypes.CurrencyPairGenesis{}})
	o.Pairs = append(append([]string(nil), pairs...), tsPair)
	for _, p := range o.Pairs {
		cp, err := connecttypes.CurrencyPairFromString(p)
		if err != nil {
			panic(err)
		}
		if err := l2.OK.CreateCurrencyPair(l2.Ctx, cp); err != nil {
			panic(err)
		}
	}
	o.strategy = currencypair.NewHashCurrencyPairStrategy(l2.OK)
	o.veCodec = connectcodec.NewCompressionVoteExtensionCodec(connectcodec.NewDefaultVoteExtensionCodec(), connectcodec.NewZLibCompressor())
	o.ecCodec = connectcodec.NewCompressionExtendedCommitCodec(connectcodec.NewDefaultExtendedCommitCodec(), connectcodec.NewZStdCompressor())
	o.Host = newHostVals(powers, 0)
	if err := l2.K.UpdateHostValidatorSet(l2.Ctx, o.ClientID, o.HostHeight, cmtValSet(o.Host)); err != nil {
		panic(err)
	}
	return o
}

func (o *OracleEnv) Branch() *OracleEnv {
	cp := *o
	cp.L2Env = o.L2Env.Branch()
	return &cp
}

type sigKind int

const (
	sigValid sigKind = iota
	sigForged
	sigByOther
	sigWrongChain
	sigWrongHeight
	sigWrongRound
	sigMissing
	sigOverOtherExtension // the validator's genuine signature for the same chain/height/round, but over SignedPrices
)

var sigNames = []string{"valid", "forged", "by-other-validator", "wrong-chain-id", "wrong-height", "wrong-round", "missing", "harvested-over-other-extension"}

// voteSpec describes one entry of the extended commit.
type voteSpec struct {
	Val          int // index into Host; -1 = validator unknown to the host set
	Unknown      *hostVal
	Flag         cmtproto.BlockIDFlag
	Prices       map[string]*big.Int // pair → price (encoded properly)
	Garbage      map[string][]byte   // pair → undecodable bytes
	Sig          sigKind
	OtherSigner  int
	ClaimedPower int64
	ZeroPower    bool // the vote's own power field says 0 (ClaimedPower 0 means "the validator's real power")
	NoExtension  bool
	SignedPrices map[string]*big.Int // sigOverOtherExtension: what the reused signature was really given for
}

func marshalDelimited(msg proto.Message) []byte {
	var buf bytes.Buffer
	if err := protoio.NewDelimitedWriter(&buf).WriteMsg(msg); err != nil {
		panic(err)
	}
	return buf.Bytes()
}

// BuildCommit encodes the extended commit for an update at `height` (votes are for height-1).
func (o *OracleEnv) BuildCommit(height uint64, round int32, specs []voteSpec) []byte {
	l2 := o.L2
	eci := cometabci.ExtendedCommitInfo{Round: round}
	for _, s := range specs {
		var v hostVal
		if s.Val >= 0 {
			v = o.Host[s.Val]
		} else {
			v = *s.Unknown
		}
		encodeExt := func(prices map[string]*big.Int, garbage map[string][]byte) []byte {
			conv := map[uint64][]byte{}
			for pair, price := range prices {
				cp, _ := connecttypes.CurrencyPairFromString(pair)
				enc, err := o.strategy.GetEncodedPrice(l2.Ctx, cp, price)
				if err != nil {
					panic(err)
				}
				id, err := currencypair.CurrencyPairToHashID(pair)
				if err != nil {
					panic(err)
				}
				conv[id] = enc
			}
			for pair, g := range garbage {
				id, _ := currencypair.CurrencyPairToHashID(pair)
				conv[id] = g
			}
			bz, err := o.veCodec.Encode(vetypes.OracleVoteExtension{Prices: conv})
			if err != nil {
				panic(err)
			}
			return bz
		}
		var ext []byte
		if !s.NoExtension {
			conv := map[uint64][]byte{}
			for pair, price := range s.Prices {
				cp, _ := connecttypes.CurrencyPairFromString(pair)
				enc, err := o.strategy.GetEncodedPrice(l2.Ctx, cp, price)
				if err != nil {
					panic(err)
				}
				id, err := currencypair.CurrencyPairToHashID(pair)
				if err != nil {
					panic(err)
				}
				conv[id] = enc
			}
			for pair, g := range s.Garbage {
				id, _ := currencypair.CurrencyPairToHashID(pair)
				conv[id] = g
			}
			var err error
			ext, err = o.veCodec.Encode(vetypes.OracleVoteExtension{Prices: conv})
			if err != nil {
				panic(err)
			}
		}
		chain, h, r := o.L1ChainID, int64(height)-1, int64(round)
		signer := v.Priv
		switch s.Sig {
		case sigWrongChain:
			chain = "some-other-chain"
		case sigWrongHeight:
			h -= 3
		case sigWrongRound:
			r++
		case sigByOther:
			signer = o.Host[s.OtherSigner].Priv
		}
		var sig []byte
		if s.Sig != sigMissing {
			var err error
			signed := ext
			if s.Sig == sigOverOtherExtension {
				signed = encodeExt(s.SignedPrices, nil)
			}
			sig, err = signer.Sign(marshalDelimited(&cmtproto.CanonicalVoteExtension{Extension: signed, Height: h, Round: r, ChainId: chain}))
			if err != nil {
				panic(err)
			}
			if s.Sig == sigForged {
				sig[5] ^= 0x40
			}
		}
		power := s.ClaimedPower
		if power == 0 {
			power = v.Power
		}
		if s.ZeroPower {
			power = 0 // the power field of a submitted vote is whatever the submitter writes there
		}
		eci.Votes = append(eci.Votes, cometabci.ExtendedVoteInfo{
			Validator:          cometabci.Validator{Address: v.Addr(), Power: power},
			VoteExtension:      ext,
			ExtensionSignature: sig,
			BlockIdFlag:        s.Flag,
		})
	}
	bz, err := o.ecCodec.Encode(eci)
	if err != nil {
		panic(err)
	}
	return bz
}

// HonestCommit: every host validator votes the same prices with a valid signature.
func (o *OracleEnv) HonestSpecs(prices map[string]*big.Int) []voteSpec {
	var specs []voteSpec
	for i := range o.Host {
		specs = append(specs, voteSpec{Val: i, Flag: cmtproto.BlockIDFlagCommit, Prices: prices, Sig: sigValid})
	}
	return specs
}

// PriceState reads every pair's stored price and timestamp.
type priceState struct {
	Price string
	TsNs  int64
	Set   bool
}

func (o *OracleEnv) Prices() map[string]priceState {
	out := map[string]priceState{}
	for _, p := range o.Pairs {
		cp, _ := connecttypes.CurrencyPairFromString(p)
		qp, err := o.L2.OK.GetPriceForCurrencyPair(o.L2.Ctx, cp)
		if err != nil {
			out[p] = priceState{}
			continue
		}
		out[p] = priceState{qp.Price.String(), qp.BlockTimestamp.UnixNano(), true}
	}
	return out
}

// HostSetState reads the recorded host validator set.
func (o *OracleEnv) HostSetState() (int64, map[string]int64) {
	l2 := o.L2
	h, err := l2.K.HostValidatorStore.GetLastHeight(l2.Ctx)
	if err != nil {
		h = -1
	}
	vals, _ := l2.K.HostValidatorStore.GetAllValidators(l2.Ctx)
	out := map[string]int64{}
	for _, v := range vals {
		ca, err := v.GetConsAddr()
		if err != nil {
			continue
		}
		out[fmt.Sprintf("%X", ca)] = v.GetBondedTokens().Quo(sdk.DefaultPowerReduction).Int64()
	}
	return h, out
}
