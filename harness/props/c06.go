package props

import (
	"fmt"
	math2 "math"
	"strconv"
	"strings"

	"cosmossdk.io/math"
	sdk "github.com/cosmos/cosmos-sdk/types"
	banktypes "github.com/cosmos/cosmos-sdk/x/bank/types"

	opchildtypes "github.com/initia-labs/OPinit/x/opchild/types"

	"verifharness/mon"
	"verifharness/sim"
)

func init() { register("C06", "exploration", checkC06) }

// pendingDeposit is what L1 emitted for sequence k (fixed content; a faithful relayer never alters it).
type pendingDeposit struct {
	seq    uint64
	from   string
	to     sim.Account
	toStr  string
	amount int64
	denom  string
	hook   bool // carries a hook signed by the recipient: [spend half of the deposit, a transfer that cannot be paid] — the hook fails as a whole
}

type c06Model struct {
	base     uint64 // sequences base+1, base+2, ... (0 on a chain started from scratch)
	next     uint64
	credited map[string]int64 // recipient → sum
	events   []uint64         // sequences seen in finalize_token_deposit events, in order
}

func (m *c06Model) clone() *c06Model {
	n := &c06Model{base: m.base, next: m.next, credited: map[string]int64{}, events: append([]uint64(nil), m.events...)}
	for k, v := range m.credited {
		n.credited[k] = v
	}
	return n
}

type c06 struct {
	run      *mon.Run
	deps     []pendingDeposit
	visited  map[string]struct{}
	nodes    int
	symbols  int
	stranger sim.Account
}

func mkDeposits(e *L2Env, n int) []pendingDeposit {
	var out []pendingDeposit
	for k := 1; k <= n; k++ {
		u := e.Users[k%len(e.Users)]
		d := pendingDeposit{seq: uint64(k), from: "l1sender" + strconv.Itoa(k%3), to: u, toStr: u.String(), amount: int64(1000 + k*k*17 + k), denom: []string{"uinit", "uusdc"}[k%2]}
		if k%5 == 4 {
			d.amount = 0 // an empty deposit (to an account that exists by then) is a deposit like any other: it takes its sequence
		}
		d.hook = k%7 == 3 && d.amount > 0
		out = append(out, d)
	}
	return out
}

// step delivers deposit d via sender on env and compares with the model. Returns updated flag.
func (c *c06) step(e *L2Env, m *c06Model, d pendingDeposit, sender sim.Account, isExec bool, path []string) {
	run := c.run
	before := e.L2.Dump()
	msg := e.DepositMsg(sender, d.seq, d.from, d.toStr, d.denom, math.NewInt(d.amount), nil)
	if d.seq < m.next {
		// a replay need not repeat the original content: whatever it says, it must change nothing
		switch (len(path) + int(d.seq)) % 4 {
		case 1:
			msg = e.DepositMsg(sender, d.seq, d.from, d.toStr, fmt.Sprintf("unseen%d", len(path)), math.NewInt(d.amount+1), nil) // a denom never registered
		case 2:
			msg.BaseDenom = "uconflict"
			msg.To = e.Users[5].String()
		case 3:
			msg.Data = []byte{1, 2, 3}
			msg.Amount.Amount = math.NewInt(d.amount * 3)
		}
	}
	if isExec && (len(path)+int(d.seq%1000))%5 == 0 {
		// the executor spells its own address in upper case (a valid bech32 spelling of the same account)
		msg.Sender = strings.ToUpper(msg.Sender)
		run.Count("C06.deliveries_signed_under_uppercase_spelling")
	}
	hooked := false
	if d.hook && d.seq == m.next && d.toStr == d.to.String() {
		// a multi-message hook whose first message spends part of what this very deposit credits and whose second cannot
		// be paid: the hook fails as a whole, the deposit is refunded, and it still takes its sequence
		if n, sq, ok := e.L2.AccNumSeq(d.to.Addr); ok {
			l2d := e.L2Denom(d.denom)
			bz, err := e.L2.SignTx(d.to, n, sq, sim.L2ChainID, 300_000,
				banktypes.NewMsgSend(d.to.Addr, e.Users[5].Addr, sdk.NewCoins(sdk.NewCoin(l2d, math.NewInt(d.amount/2+1)))),
				banktypes.NewMsgSend(d.to.Addr, e.Users[5].Addr, sdk.NewCoins(sdk.NewCoin(l2d, math.NewInt(1<<62).MulRaw(2)))))
			if err == nil {
				msg.Data = bz
				hooked = true
			}
		}
	}
	res := e.L2.Deliver(msg)
	run.Evaluations++
	after := e.L2.Dump()
	tr := append(append([]string(nil), path...), fmt.Sprintf("deliver(seq=%d by=%s hook=%v) with next=%d -> %s %s", d.seq, sender.Name, hooked, m.next, res.Class, res.ErrString()))
	switch {
	case !isExec:
		run.Check("C06.non_executor_rejected", res.Class != sim.OK, "c06.non_executor_accepted", tr, "deposit finalization by non-executor %s accepted", sender.Name)
	case d.seq < m.next:
		ok := res.Class == sim.OK && res.Resp().(*opchildtypes.MsgFinalizeTokenDepositResponse).Result == opchildtypes.NOOP
		run.Check("C06.stale_is_noop", ok, "c06.stale_not_noop", tr, "already processed sequence %d (next %d) did not answer NOOP", d.seq, m.next)
		run.Check("C06.noop_changes_nothing", sim.Digest(before) == sim.Digest(after), "c06.noop_changed_state", tr, "NOOP for sequence %d changed state: %d raw keys differ", d.seq, len(sim.DiffKV(before, after)))
		run.Check("C06.noop_emits_no_deposit_event", len(res.EventsOfType(opchildtypes.EventTypeFinalizeTokenDeposit)) == 0, "c06.noop_event", tr, "NOOP emitted a finalize_token_deposit event")
	case d.seq > m.next:
		run.Check("C06.ahead_is_rejected", res.Class != sim.OK, "c06.ahead_accepted", tr, "sequence %d ahead of next %d accepted", d.seq, m.next)
	default:
		ok := res.Class == sim.OK && res.Resp().(*opchildtypes.MsgFinalizeTokenDepositResponse).Result == opchildtypes.SUCCESS
		run.Check("C06.in_order_succeeds", ok, "c06.in_order_failed", tr, "expected sequence %d by executor failed: %s", d.seq, res.ErrString())
		if res.Class == sim.OK {
			m.next++
			if hooked {
				run.Count("C06.in_order_deposits_with_failing_multi_message_hook")
				m.credited[d.toStr+"/"+e.L2Denom(d.denom)] += 0 // refunded: nothing stays, neither with the recipient nor with the hook's payee
				m.credited[e.Users[5].String()+"/"+e.L2Denom(d.denom)] += 0
			} else {
				m.credited[d.toStr+"/"+e.L2Denom(d.denom)] += d.amount
			}
		}
	}
	if res.Class == sim.OK {
		for _, ev := range res.EventsOfType(opchildtypes.EventTypeFinalizeTokenDeposit) {
			s, _ := sim.Attr(ev, opchildtypes.AttributeKeyL1Sequence)
			v, _ := strconv.ParseUint(s, 10, 64)
			m.events = append(m.events, v)
		}
	}
	c.invariants(e, m, tr)
}

func (c *c06) invariants(e *L2Env, m *c06Model, tr []string) {
	run := c.run
	run.Check("C06.next_sequence_query", e.NextL1Seq() == m.next, "c06.next_query", tr, "Query/NextL1Sequence=%d, model %d", e.NextL1Seq(), m.next)
	for k, want := range m.credited {
		parts := strings.SplitN(k, "/", 2)
		addr, _ := sdk.AccAddressFromBech32(parts[0])
		got := e.L2.BK.GetBalance(e.L2.Ctx, addr, parts[1]).Amount
		run.Check("C06.credited_exactly_once", got.Equal(math.NewInt(want)), "c06.balance", tr, "recipient %s holds %s of %s, expected %d (sum of its credited deposits)", short(parts[0]), got, short(parts[1]), want)
	}
	good := m.base+uint64(len(m.events))+1 == m.next
	for i, s := range m.events {
		if s != m.base+uint64(i)+1 {
			good = false
		}
	}
	run.Check("C06.events_once_in_order", good, "c06.events", tr, "finalize_token_deposit events %v are not exactly %d..%d in order", m.events, m.base+1, m.next-1)
}

func (c *c06) dfs(e *L2Env, m *c06Model, depth int, path []string, memo bool) {
	if c.run.TooMany() {
		return
	}
	if memo {
		k := sim.Digest(e.L2.Dump()) + "/" + strconv.Itoa(depth)
		if _, ok := c.visited[k]; ok {
			return
		}
		c.visited[k] = struct{}{}
	}
	c.nodes++
	if depth == 0 {
		if !memo {
			sched := strings.Join(path, " ")
			dup, gap, ord := false, false, false
			for _, p := range path {
				dup = dup || strings.Contains(p, "stale")
				gap = gap || strings.Contains(p, "ahead")
				ord = ord || strings.Contains(p, "inorder")
			}
			if dup && gap && ord {
				c.run.Distinct("sched/" + sched)
			}
		}
		return
	}
	senders := []struct {
		a    sim.Account
		exec bool
	}{{e.Executors[0], true}, {e.Executors[1], true}, {c.stranger, false}}
	for s := 0; s < c.symbols; s++ {
		for _, snd := range senders {
			d := c.deps[s]
			br := e.Branch()
			mm := m.clone()
			cls := "inorder"
			if d.seq < m.next {
				cls = "stale"
			} else if d.seq > m.next {
				cls = "ahead"
			}
			if !snd.exec {
				cls = "stranger"
			}
			np := append(append([]string(nil), path...), fmt.Sprintf("%d%s:%s", d.seq, snd.a.Name[len(snd.a.Name)-1:], cls))
			c.step(br, mm, d, snd.a, snd.exec, np)
			c.dfs(br, mm, depth-1, np, memo)
		}
	}
}

func checkC06(run *mon.Run, rng *mon.Rand, thorough bool) {
	run.Rule = "(1) every delivery schedule of length L over {seq 1..4} x {executor A, executor B, stranger} enumerated without memoisation (L=4 quick, 5 thorough); (2) the same alphabet explored to depth 8/10 with state-digest memoisation; (3) long seeded random schedules with duplicates, replays, gaps, bursts, executor rotation via MsgUpdateParams and change plans, refunds and unrelated L2 traffic. Every step is compared with the sequential model. Distinct non-trivial = schedules containing a duplicate, a gap and an in-order delivery"
	run.Assumptions = []string{"a faithful relayer never alters the content of deposit k", "state memoisation is sound because handlers are functions of (store, message) only (C18 checks that separately)"}
	for _, c := range []string{"C06.non_executor_rejected", "C06.stale_is_noop", "C06.noop_changes_nothing", "C06.ahead_is_rejected", "C06.in_order_succeeds", "C06.next_sequence_query", "C06.credited_exactly_once", "C06.events_once_in_order"} {
		run.Declare(c, 50)
	}
	e := newL2Env(L2EnvOpts{})
	c := &c06{run: run, deps: mkDeposits(e, 12), visited: map[string]struct{}{}, symbols: 4, stranger: sim.NewAccount("stranger0")}
	m := &c06Model{next: 1, credited: map[string]int64{}}
	plain := pick(thorough, 4, 5)
	c.dfs(e, m, plain, nil, false)
	run.Extra["exhaustive_schedule_length"] = plain
	run.Extra["exhaustive_nodes"] = c.nodes
	c.nodes = 0
	c.symbols = 6
	deep := pick(thorough, 8, 10)
	c.dfs(e, m, deep, nil, true)
	run.Extra["memoised_depth"] = deep
	run.Extra["memoised_nodes"] = c.nodes
	run.Sample(map[string]interface{}{"schedule_symbols": "seq<k><sender A|B|r>:class", "example": "1A:inorder 1B:stale 3A:ahead 2r:stranger 2B:inorder"})

	c06FreshStore(run)
	c06Reentrant(run)

	// ---- long random schedules ----
	runs := pick(thorough, 4, 40)
	length := pick(thorough, 1500, 5000)
	for r := 0; r < runs && !run.TooMany(); r++ {
		c06Random(run, rng.Split(), length, r == 0)
	}
	run.Extra["random_schedules"] = runs
	run.Extra["random_schedule_length"] = length
}

// c06FreshStore: a chain on which nothing has ever written the opchild counters (no genesis import of this module):
// the first expected deposit is number 1, for the query as for the handler.
func c06FreshStore(run *mon.Run) {
	raw := sim.NewL2(sim.L2Opts{})
	q, err := raw.Q.NextL1Sequence(raw.Ctx, &opchildtypes.QueryNextL1SequenceRequest{})
	run.Evaluations++
	run.Check("C06.next_sequence_query", err == nil && q.NextL1Sequence == 1, "c06.next_query_fresh_store", []string{"store never written"}, "Query/NextL1Sequence on a fresh store = %v (err %v), the first deposit is number 1", q, err)
	e := newL2Env(L2EnvOpts{})
	run.Check("C06.next_sequence_query", e.NextL1Seq() == 1, "c06.next_query_after_genesis", []string{"after InitGenesis, before any deposit"}, "Query/NextL1Sequence = %d before the first deposit", e.NextL1Seq())
}

func c06Random(run *mon.Run, rng *mon.Rand, length int, sample bool) {
	var base uint64
	if rng.Chance(25) {
		base = 1<<63 - 4 // the counter crosses 2^63 during the schedule (a chain imported after that many deposits)
	}
	noInfo := rng.Chance(30) // the bridge info is registered only in the middle of the schedule
	e := newL2Env(L2EnvOpts{NextL1Sequence: base + 1, NoBridgeInfo: noInfo})
	e.L2.Speculate = rng.Bool() // half of the schedules: every transaction runs first on a throw-away branch (CheckTx)
	if rng.Bool() {
		e.EnableShadow(rng.U64()) // and other transactions run on discarded branches in between
	}
	if rng.Bool() {
		// the bank module already knows the bridged uusdc (metadata from bank genesis or set by another module)
		d := e.L2Denom("uusdc")
		e.L2.BK.SetDenomMetaData(e.L2.Ctx, banktypes.Metadata{Base: d, Display: "usdc", Name: "pre-registered", Symbol: "USDC",
			DenomUnits: []*banktypes.DenomUnit{{Denom: d, Exponent: 0}, {Denom: "usdc", Exponent: 6}}})
		run.Count("C06.schedules_with_preexisting_bank_metadata")
	}
	c := &c06{run: run, stranger: sim.NewAccount("stranger1")}
	nDeps := length/3 + 10
	c.deps = mkDeposits(e, nDeps)
	for i := range c.deps {
		c.deps[i].seq += base
	}
	// some deposits go to unusable recipients (refund path) to interleave the L2 sequence
	for i := range c.deps {
		if rng.Chance(10) {
			c.deps[i].toStr = "not-an-address"
		}
	}
	m := &c06Model{base: base, next: base + 1, credited: map[string]int64{}}
	execs := map[string]bool{e.Executors[0].String(): true, e.Executors[1].String(): true}
	pool := []sim.Account{e.Executors[0], e.Executors[1], sim.NewAccount("executorC"), sim.NewAccount("executorD"), c.stranger}
	var log []string
	c.invariants(e, m, []string{"before any delivery"}) // the query answers before the first deposit, too
	for i := 0; i < length && !run.TooMany(); i++ {
		switch x := rng.Intn(100); {
		case x < 70:
			var seq uint64
			nx := m.next - base // 1-based position of the next expected deposit in c.deps
			switch rng.Intn(7) {
			case 0, 1:
				seq = m.next
			case 2:
				if nx > 1 {
					seq = base + 1 + uint64(rng.Intn(int(nx-1))) // replay of an old one
				} else {
					seq = m.next
				}
			case 3:
				seq = m.next + 1 + uint64(rng.Intn(3)) // gap
			case 4:
				if nx > 1 {
					seq = m.next - 1 // immediate duplicate
				} else {
					seq = m.next
				}
			case 5:
				// far away from the expected sequence: 2^63 ahead, the largest value, the smallest value
				far := c.deps[0]
				far.seq = mon.Pick(rng, []uint64{m.next + 1<<63, math2.MaxUint64, m.next + 1<<62, 1, base/2 + 1})
				snd := mon.Pick(rng, pool)
				log = append(log, fmt.Sprintf("deliver(seq=%d by=%s next=%d)", far.seq, snd.Name, m.next))
				c.step(e, m, far, snd, execs[snd.String()], tail(log, 30))
				continue
			default:
				seq = m.next
			}
			if int(seq-base) > len(c.deps) {
				continue
			}
			d := c.deps[seq-base-1]
			snd := mon.Pick(rng, pool)
			if d.toStr == "not-an-address" && seq == m.next && execs[snd.String()] {
				// refund path: handled by the generic model except that nothing is credited
				before := e.NextL2Seq()
				res := e.L2.Deliver(e.DepositMsg(snd, d.seq, d.from, d.toStr, d.denom, math.NewInt(d.amount), nil))
				run.Evaluations++
				tr := append(tail(log, 30), fmt.Sprintf("deliver(seq=%d bad recipient) -> %s", seq, res.Class))
				run.Check("C06.in_order_succeeds", res.Class == sim.OK, "c06.in_order_failed", tr, "in-order deposit to unusable recipient failed: %s", res.ErrString())
				if res.Class == sim.OK {
					m.next++
					m.events = append(m.events, seq)
					run.Check("C06.refund_takes_l2_sequence", e.NextL2Seq() == before+1, "c06.refund_l2seq", tr, "refund did not advance the L2 sequence")
				}
				c.invariants(e, m, tr)
				log = append(log, tr[len(tr)-1])
				continue
			}
			log = append(log, fmt.Sprintf("deliver(seq=%d by=%s next=%d)", seq, snd.Name, m.next))
			c.step(e, m, d, snd, execs[snd.String()], tail(log, 30))
		case x < 78:
			// multi-message transaction mixing stale and fresh deliveries
			nx := m.next - base
			if int(nx)+1 > len(c.deps) || nx < 2 {
				continue
			}
			if c.deps[nx-1].toStr == "not-an-address" || c.deps[nx].toStr == "not-an-address" {
				continue
			}
			ex := e.Executors[0]
			if !execs[ex.String()] {
				continue
			}
			stale, fresh, fresh2 := c.deps[nx-2], c.deps[nx-1], c.deps[nx]
			mk := func(d pendingDeposit) sdk.Msg {
				return e.DepositMsg(ex, d.seq, d.from, d.toStr, d.denom, math.NewInt(d.amount), nil)
			}
			res := e.L2.Deliver(mk(stale), mk(fresh), mk(stale), mk(fresh2))
			run.Evaluations++
			log = append(log, fmt.Sprintf("tx[stale %d, fresh %d, stale %d, fresh %d] -> %s", stale.seq, fresh.seq, stale.seq, fresh2.seq, res.Class))
			run.Check("C06.in_order_succeeds", res.Class == sim.OK, "c06.multi_msg_tx", tail(log, 30), "transaction [stale, next, stale, next+1] failed: %s", res.ErrString())
			if res.Class == sim.OK {
				m.next += 2
				m.credited[fresh.toStr+"/"+e.L2Denom(fresh.denom)] += fresh.amount
				m.credited[fresh2.toStr+"/"+e.L2Denom(fresh2.denom)] += fresh2.amount
				m.events = append(m.events, fresh.seq, fresh2.seq)
			}
			c.invariants(e, m, tail(log, 30))
		case x < 84:
			// executor rotation through MsgUpdateParams by the module authority
			p, _ := e.L2.K.GetParams(e.L2.Ctx)
			n := 1 + rng.Intn(3)
			var list []string
			newExecs := map[string]bool{}
			for len(list) < n {
				a := pool[rng.Intn(4)]
				if !newExecs[a.String()] {
					newExecs[a.String()] = true
					list = append(list, a.String())
				}
			}
			p.BridgeExecutors = list
			res := e.L2.Deliver(opchildtypes.NewMsgUpdateParams(e.L2.Authority, &p))
			log = append(log, fmt.Sprintf("update_params executors=%d -> %s", n, res.Class))
			if res.Class == sim.OK {
				execs = newExecs
			}
		case x < 92:
			// unrelated traffic: transfers of bridged tokens between users (keeps per-recipient sums in the model)
			from := mon.Pick(rng, e.Users)
			to := mon.Pick(rng, e.Users)
			denom := e.L2Denom([]string{"uinit", "uusdc"}[rng.Intn(2)])
			bal := e.L2.BK.GetBalance(e.L2.Ctx, from.Addr, denom).Amount
			if bal.IsPositive() && from.String() != to.String() {
				amt := int64(1 + rng.Intn(int(minI64(bal.Int64(), 500))))
				if rng.Chance(40) {
					// a user withdraws to L1: other traffic of the same module, with its own (L2) sequence
					res := e.L2.Deliver(opchildtypes.NewMsgInitiateTokenWithdrawal(from.String(), "l1recipient", sdk.NewCoin(denom, math.NewInt(amt))))
					if res.Class == sim.OK {
						m.credited[from.String()+"/"+denom] -= amt
					}
					log = append(log, fmt.Sprintf("withdrawal of %d by %s -> %s", amt, from.Name, res.Class))
					c.invariants(e, m, tail(log, 30))
					continue
				}
				res := e.L2.Deliver(banktypes.NewMsgSend(from.Addr, to.Addr, sdk.NewCoins(sdk.NewCoin(denom, math.NewInt(amt)))))
				if res.Class == sim.OK {
					m.credited[from.String()+"/"+denom] -= amt
					m.credited[to.String()+"/"+denom] += amt
				}
				log = append(log, fmt.Sprintf("transfer %d -> %s", amt, res.Class))
			}
		default:
			if noInfo && rng.Chance(40) {
				// the bridge info is registered (for the first time, or again) by whoever is an executor now
				for _, a := range pool {
					if execs[a.String()] {
						res := e.L2.Deliver(opchildtypes.NewMsgSetBridgeInfo(a.String(), e.BridgeInfo("", false)))
						log = append(log, fmt.Sprintf("set_bridge_info by %s -> %s", a.Name, res.Class))
						run.Check("C06.next_sequence_query", res.Class == sim.OK && e.NextL1Seq() == m.next, "c06.bridge_info_moved_sequence", tail(log, 30), "registering the bridge info -> %s %s; Query/NextL1Sequence=%d, model %d", res.Class, res.ErrString(), e.NextL1Seq(), m.next)
						break
					}
				}
				continue
			}
			e.L2.NextBlock(1e9)
			log = append(log, "next block")
			if rng.Chance(15) {
				ok := migrateL2(e)
				log = append(log, fmt.Sprintf("chain exported and restarted from its genesis -> imported=%v", ok))
				c.invariants(e, m, tail(log, 30))
			}
		}
	}
	if sample {
		run.Sample(map[string]interface{}{"random_schedule_prefix": tail(log, 25)})
	}
	run.Distinct(fmt.Sprintf("random/%d/%d", m.next, len(log)))
}

// c06Reentrant: the hook payload of deposit N is itself a transaction, signed by an authorised executor, that
// finalizes a deposit (the same sequence N again, or N+1). Every sequence must still be credited exactly once.
func c06Reentrant(run *mon.Run) {
	run.Declare("C06.reentrant_hook_exactly_once", 4)
	for _, inner := range []string{"same", "next", "stale", "ahead"} {
		e := newL2Env(L2EnvOpts{})
		deps := mkDeposits(e, 6)
		c := &c06{run: run, deps: deps, stranger: sim.NewAccount("stranger0")}
		m := &c06Model{next: 1, credited: map[string]int64{}}
		exA, exB := e.Executors[0], e.Executors[1]
		// executor B needs an account on L2 to sign: fund it with a native token
		e.L2.Fund(exB.Addr, sdk.NewCoin("unative", math.NewInt(10)))
		path := []string{"reentrant-" + inner}
		c.step(e, m, deps[0], exA, true, path) // sequence 1 the ordinary way
		c.step(e, m, deps[1], exA, true, path) // sequence 2
		// sequence 3 carries a hook: a tx by executor B finalizing ...
		d := deps[2]
		var in pendingDeposit
		switch inner {
		case "same":
			in = deps[2]
		case "next":
			in = deps[3]
		case "stale":
			in = deps[0]
		default:
			in = deps[5]
		}
		n, s, _ := e.L2.AccNumSeq(exB.Addr)
		innerMsg := e.DepositMsg(exB, in.seq, in.from, in.toStr, in.denom, math.NewInt(in.amount), nil)
		bz, err := e.L2.SignTx(exB, n, s, sim.L2ChainID, 2_000_000, innerMsg)
		if err != nil {
			panic(err)
		}
		res := e.L2.DeliverGas(50_000_000, e.DepositMsg(exA, d.seq, d.from, d.toStr, d.denom, math.NewInt(d.amount), bz))
		run.Evaluations++
		tr := append(path, fmt.Sprintf("deliver(seq=3 by A, hook = tx by executor B finalizing seq %d) -> %s %s", in.seq, res.Class, res.ErrString()))
		run.Check("C06.reentrant_hook_exactly_once", res.Class == sim.OK, "c06.reentrant_failed", tr, "deposit with a finalizing hook failed: %s", res.ErrString())
		if res.Class != sim.OK {
			continue
		}
		// model: 3 is processed; the inner one is processed iff it is sequence 4 (the next one while the hook runs)
		m.next = 4
		if inner != "ahead" {
			m.credited[d.toStr+"/"+e.L2Denom(d.denom)] += d.amount
		} // an inner message ahead of the sequence fails, so the hook fails and deposit 3 is refunded, not credited
		if inner == "next" {
			m.next = 5
			m.credited[in.toStr+"/"+e.L2Denom(in.denom)] += in.amount
		}
		m.events = nil
		for i := uint64(1); i < m.next; i++ {
			m.events = append(m.events, i)
		}
		seen := []uint64{1, 2}
		for _, ev := range res.EventsOfType(opchildtypes.EventTypeFinalizeTokenDeposit) {
			sq, _ := sim.Attr(ev, opchildtypes.AttributeKeyL1Sequence)
			v, _ := strconv.ParseUint(sq, 10, 64)
			seen = append(seen, v)
		}
		// each processed sequence announced exactly once (order of the two events inside one tx is not prescribed)
		cnt := map[uint64]int{}
		for _, v := range seen {
			cnt[v]++
		}
		okEv := len(seen) == int(m.next-1)
		for i := uint64(1); i < m.next; i++ {
			if cnt[i] != 1 {
				okEv = false
			}
		}
		run.Check("C06.reentrant_hook_exactly_once", okEv, "c06.reentrant_events", tr, "finalize_token_deposit events announce sequences %v, expected each of 1..%d exactly once", seen, m.next-1)
		run.Check("C06.reentrant_hook_exactly_once", e.NextL1Seq() == m.next, "c06.reentrant_next", tr, "next L1 sequence is %d after a finalizing hook, expected %d", e.NextL1Seq(), m.next)
		for k, want := range m.credited {
			parts := strings.SplitN(k, "/", 2)
			addr, _ := sdk.AccAddressFromBech32(parts[0])
			got := e.L2.BK.GetBalance(e.L2.Ctx, addr, parts[1]).Amount
			run.Check("C06.reentrant_hook_exactly_once", got.Equal(math.NewInt(want)), "c06.reentrant_double_credit", tr, "recipient %s holds %s, expected %d: a sequence was credited twice or lost inside the hook", short(parts[0]), got, want)
		}
		run.Distinct("reentrant/" + inner)
		// the following sequence is still processable in order
		nd := deps[m.next-1]
		c.step(e, m, nd, exA, true, tr)
	}
}

func tail(s []string, n int) []string {
	if len(s) > n {
		s = s[len(s)-n:]
	}
	return append([]string(nil), s...)
}

func minI64(a, b int64) int64 {
	if a < b {
		return a
	}
	return b
}
