package props

import (
	"fmt"
	"math/big"
	"strconv"
	"strings"

	"cosmossdk.io/math"
	sdk "github.com/cosmos/cosmos-sdk/types"
	authtypes "github.com/cosmos/cosmos-sdk/x/auth/types"
	banktypes "github.com/cosmos/cosmos-sdk/x/bank/types"

	opchildtypes "github.com/initia-labs/OPinit/x/opchild/types"

	"verifharness/mon"
	"verifharness/sim"
)

func init() { register("C09", "exploration", checkC09) }

type c09World struct {
	run     *mon.Run
	rng     *mon.Rand
	e       *L2Env
	supply  map[string]*big.Int // l2 denom → expected supply
	pairs   map[string]string   // l2 denom → base denom fixed by first deposit
	nextL1  uint64
	nextL2  uint64
	log     []string
	feat    map[string]int
	natives []string
}

func (w *c09World) tr() []string { return tail(w.log, 40) }

func (w *c09World) add(denom string, v *big.Int) {
	if w.supply[denom] == nil {
		w.supply[denom] = new(big.Int)
	}
	w.supply[denom].Add(w.supply[denom], v)
}

// after every message
func (w *c09World) invariants() {
	l2 := w.e.L2
	for d, want := range w.supply {
		got := l2.BK.GetSupply(l2.Ctx, d).Amount.BigInt()
		w.run.Check("C09.supply_conserved", got.Cmp(want) == 0, "c09.supply", w.tr(), "supply of %s is %s, expected deposits-withdrawals = %s", short(d), got, want)
	}
	w.run.Check("C09.l2_sequence_query", w.e.NextL2Seq() == w.nextL2, "c09.l2seq_query", w.tr(), "Query/NextL2Sequence=%d, model %d", w.e.NextL2Seq(), w.nextL2)
	for d, base := range w.pairs {
		r, err := l2.Q.BaseDenom(l2.Ctx, &opchildtypes.QueryBaseDenomRequest{Denom: d})
		w.run.Check("C09.denom_pair_write_once", err == nil && r.BaseDenom == base, "c09.denom_pair_changed", w.tr(), "Query/BaseDenom(%s)=%v, first deposit set %q", short(d), r, base)
	}
	for _, d := range append([]string{"l2/neverseen"}, w.natives...) {
		_, err := l2.Q.BaseDenom(l2.Ctx, &opchildtypes.QueryBaseDenomRequest{Denom: d})
		w.run.Check("C09.no_pair_for_non_l1_tokens", err != nil, "c09.pair_for_native", w.tr(), "Query/BaseDenom(%s) answered although no deposit created it", d)
	}
}

func (w *c09World) withdrawEvents(res sim.Result, wantFrom, wantTo, denom string, amt math.Int) {
	evs := res.EventsOfType(opchildtypes.EventTypeInitiateTokenWithdrawal)
	for _, ev := range evs {
		s, _ := sim.Attr(ev, opchildtypes.AttributeKeyL2Sequence)
		v, _ := strconv.ParseUint(s, 10, 64)
		w.run.Check("C09.l2_sequence_gap_free", v == w.nextL2, "c09.l2seq_gap", w.tr(), "withdrawal event carries l2_sequence %d, expected %d", v, w.nextL2)
		w.nextL2++
		b, _ := sim.Attr(ev, opchildtypes.AttributeKeyBaseDenom)
		w.run.Check("C09.event_base_denom_from_pair", b == w.pairs[denom], "c09.event_base_denom", w.tr(), "withdrawal event base_denom=%q, mapping fixed by first deposit is %q", b, w.pairs[denom])
		a, _ := sim.Attr(ev, opchildtypes.AttributeKeyAmount)
		f, _ := sim.Attr(ev, opchildtypes.AttributeKeyFrom)
		t, _ := sim.Attr(ev, opchildtypes.AttributeKeyTo)
		dn, _ := sim.Attr(ev, opchildtypes.AttributeKeyDenom)
		w.run.Check("C09.event_faithful", a == amt.String() && f == wantFrom && t == wantTo && dn == denom, "c09.event_fields", w.tr(), "withdrawal event (from=%q to=%q denom=%q amount=%s) differs from the request (from=%q to=%q denom=%q amount=%s)", f, t, dn, a, wantFrom, wantTo, denom, amt)
	}
}

func (w *c09World) opDeposit() {
	e := w.e
	l1d := mon.Pick(w.rng, []string{"uinit", "uusdc", "ueth"})
	l2d := e.L2Denom(l1d)
	base := l1d
	conflicting := false
	if _, seen := w.pairs[l2d]; seen && w.rng.Chance(20) {
		base = "uother" // a later deposit naming a different base denom for an existing L2 denom
		conflicting = true
	}
	to := mon.Pick(w.rng, e.Users).String()
	bad := w.rng.Chance(15)
	if bad {
		// unusable recipients: not an address, the module authority, the (blocked) fee collector — which already holds
		// bridged tokens of its own (collected fees) that a refund has no business touching
		to = mon.Pick(w.rng, []string{"garbage", e.L2.Authority, authtypes.NewModuleAddress(authtypes.FeeCollectorName).String()})
	}
	amt := math.NewInt(int64(w.rng.Intn(100000)))
	if w.rng.Chance(5) {
		amt = math.ZeroInt()
	}
	msg := opchildtypes.NewMsgFinalizeTokenDeposit(mon.Pick(w.rng, e.Executors).String(), "l1sender", to, sdk.NewCoin(l2d, amt), w.nextL1, 1, base, nil)
	// sometimes the deposit carries a hook signed by the recipient: a withdrawal of 1 unit, optionally followed by a
	// transfer that cannot be paid (then the whole hook, including the withdrawal, must leave nothing behind)
	hook := ""
	if !bad && amt.GT(math.NewInt(5)) && w.rng.Chance(25) {
		for _, u := range e.Users {
			if u.String() == to {
				if n, sq, ok := e.L2.AccNumSeq(u.Addr); ok {
					msgs := []sdk.Msg{opchildtypes.NewMsgInitiateTokenWithdrawal(u.String(), "l1hookrecipient", sdk.NewCoin(l2d, math.NewInt(1)))}
					hook = "withdraw"
					switch w.rng.Intn(4) {
					case 3:
						// a single message whose handler fails only after it has burned and taken a sequence: a withdrawal
						// of a native token the recipient holds. The hook fails as a whole: nothing burned, no sequence taken
						msgs = []sdk.Msg{opchildtypes.NewMsgInitiateTokenWithdrawal(u.String(), "l1hookrecipient", sdk.NewCoin("unative", math.NewInt(7)))}
						hook = "withdraw-native-then-fail"
					case 0:
						msgs = append(msgs, banktypes.NewMsgSend(u.Addr, e.Users[0].Addr, sdk.NewCoins(sdk.NewCoin(l2d, math.NewInt(1<<62)))))
						hook = "withdraw-then-fail"
					case 1:
						// the withdrawal is followed by a message that succeeds: still exactly one withdrawal, announced
						msgs = append(msgs, banktypes.NewMsgSend(u.Addr, u.Addr, sdk.NewCoins(sdk.NewCoin(l2d, math.NewInt(1)))))
					}
					bz, err := e.L2.SignTx(u, n, sq, sim.L2ChainID, 400_000, msgs...)
					if err != nil {
						panic(err)
					}
					msg.Data = bz
				}
			}
		}
		if msg.Data == nil {
			hook = ""
		}
	}
	if bad && w.rng.Bool() {
		msg.Data = w.rng.Bytes(1 + w.rng.Intn(40)) // the failed deposit carried hook data (never run)
		hook = "data-on-failed-deposit"
	}
	fault := ""
	var res sim.Result
	if hook == "" && !bad && amt.IsPositive() && w.rng.Chance(10) {
		// the mint or the transfer to the recipient fails or panics underneath the handler (a panicking send restriction,
		// recipient-side logic): the deposit must end as a refund with no net mint
		res, fault = w.deliverWithBankFault(msg)
	} else {
		res = e.L2.DeliverGas(100_000_000, msg)
	}
	w.run.Evaluations++
	w.log = append(w.log, fmt.Sprintf("deposit seq=%d to=%s %s%s base=%s hook=%q fault=%q -> %s %s", w.nextL1, short(to), amt, short(l2d), base, hook, fault, res.Class, res.ErrString()))
	if res.Class != sim.OK {
		w.run.Check("C09.deposit_processed", false, "c09.deposit_failed", w.tr(), "in-order deposit failed: %s", res.ErrString())
		return
	}
	w.nextL1++
	if _, seen := w.pairs[l2d]; !seen {
		w.pairs[l2d] = base
	}
	w.add(l2d, amt.BigInt())
	if conflicting {
		w.feat["conflicting_base"]++
	}
	succ := "true"
	for _, ev := range res.EventsOfType(opchildtypes.EventTypeFinalizeTokenDeposit) {
		succ, _ = sim.Attr(ev, opchildtypes.AttributeKeySuccess)
	}
	evs := res.EventsOfType(opchildtypes.EventTypeInitiateTokenWithdrawal)
	switch {
	case succ == "false": // refunded: exactly one withdrawal, the refund of the full amount
		w.run.Check("C09.exactly_one_event", len(evs) == 1, "c09.refund_event_count", w.tr(), "a refunded deposit (hook %q) announced %d withdrawals, expected exactly the refund", hook, len(evs))
		w.add(l2d, new(big.Int).Neg(amt.BigInt()))
		w.withdrawEvents(res, to, "l1sender", l2d, amt)
		w.feat["refund"]++
	case hook == "withdraw": // credited, and the hook withdrew one unit
		w.run.Check("C09.exactly_one_event", len(evs) == 1, "c09.hook_withdrawal_event_count", w.tr(), "a credited deposit whose hook withdraws once announced %d withdrawals", len(evs))
		w.add(l2d, big.NewInt(-1))
		w.withdrawEvents(res, to, "l1hookrecipient", l2d, math.NewInt(1))
		w.feat["hook_withdrawal"]++
	default:
		w.run.Check("C09.exactly_one_event", len(evs) == 0, "c09.credit_event_count", w.tr(), "a credited deposit announced %d withdrawals", len(evs))
	}
	w.invariants()
}

// deliverWithBankFault: see L2Env.DeliverWithBankFault.
func (w *c09World) deliverWithBankFault(msg sdk.Msg) (sim.Result, string) {
	res, fault := w.e.DeliverWithBankFault(w.rng, 100_000_000, msg)
	if fault != "" {
		w.feat["bank_fault_"+strings.Fields(fault)[0]]++
	}
	return res, fault
}

// opStaleReplay: a committed (not discarded) replay of an already processed L1 sequence that names a denom the chain has
// never credited — a native token, or a bridged denom not deposited yet with some base denom. The replay is a no-op:
// in particular it may not register a denom mapping.
func (w *c09World) opStaleReplay() {
	if w.nextL1 < 2 {
		return
	}
	e := w.e
	denom := mon.Pick(w.rng, []string{"unative", "ugas", e.L2Denom("unever"), e.L2Denom("ueth"), e.L2Denom("uinit")})
	base := mon.Pick(w.rng, []string{"bogus", "unever", "uinit"})
	seq := 1 + uint64(w.rng.Intn(int(w.nextL1-1)))
	_, known := w.pairs[denom]
	res := e.L2.DeliverGas(100_000_000, opchildtypes.NewMsgFinalizeTokenDeposit(mon.Pick(w.rng, e.Executors).String(), "l1replayer", mon.Pick(w.rng, e.Users).String(), sdk.NewCoin(denom, math.NewInt(1000)), seq, 1, base, nil))
	w.run.Evaluations++
	w.log = append(w.log, fmt.Sprintf("replay of processed L1 sequence %d naming denom %s base %s -> %s %s", seq, short(denom), base, res.Class, res.ErrString()))
	got, err := e.L2.Q.BaseDenom(e.L2.Ctx, &opchildtypes.QueryBaseDenomRequest{Denom: denom})
	if !known {
		w.run.Check("C09.no_pair_for_non_l1_tokens", err != nil, "c09.stale_replay_registered_denom", w.tr(), "after the replay of a processed sequence, denom %s (never credited by a deposit) maps to base denom %v", denom, got)
	} else {
		w.run.Check("C09.denom_pair_write_once", err == nil && got.BaseDenom == w.pairs[denom], "c09.stale_replay_changed_pair", w.tr(), "after the replay of a processed sequence, denom %s maps to %v, fixed mapping is %q", denom, got, w.pairs[denom])
	}
	w.feat["stale_replay"]++
	w.invariants()
}

func (w *c09World) opWithdraw() {
	e := w.e
	l2 := e.L2
	user := mon.Pick(w.rng, e.Users)
	var denom string
	kind := ""
	switch w.rng.Intn(6) {
	case 0:
		denom, kind = mon.Pick(w.rng, w.natives), "native"
	case 1:
		denom, kind = "l2/neverseen", "unknown"
	default:
		denom, kind = e.L2Denom(mon.Pick(w.rng, []string{"uinit", "uusdc", "ueth"})), "bridged"
	}
	bal := l2.BK.GetBalance(l2.Ctx, user.Addr, denom).Amount
	var amt math.Int
	cls := ""
	switch w.rng.Intn(5) {
	case 0:
		amt, cls = bal.AddRaw(1+int64(w.rng.Intn(1000))), "above"
	case 1:
		amt, cls = bal, "equal"
	case 2:
		amt, cls = math.ZeroInt(), "zero"
	default:
		if bal.IsPositive() {
			amt = math.NewInt(1 + int64(w.rng.Intn(int(minI64(bal.Int64(), 1<<30)))))
		} else {
			amt = math.OneInt()
		}
		cls = "below"
	}
	to := mon.Pick(w.rng, []string{"init1l1recipient", user.String(), "0xabc"})
	before := sim.AllBalances(l2.Ctx, l2.BK)
	res := l2.Deliver(opchildtypes.NewMsgInitiateTokenWithdrawal(user.String(), to, sdk.NewCoin(denom, amt)))
	w.run.Evaluations++
	w.log = append(w.log, fmt.Sprintf("withdraw by=%s %s%s (%s,%s bal=%s) -> %s %s", user.Name, amt, short(denom), kind, cls, bal, res.Class, res.ErrString()))
	_, hasPair := w.pairs[denom]
	if res.Class == sim.OK {
		w.run.Check("C09.only_l1_tokens_withdrawable", hasPair, "c09.non_l1_token_withdrawn", w.tr(), "withdrawal of %s (%s) accepted although no deposit ever created it", denom, kind)
		w.run.Check("C09.positive_amount_within_balance", amt.IsPositive() && amt.LTE(bal), "c09.overdraw", w.tr(), "withdrawal of %s accepted with balance %s", amt, bal)
		seq := res.Resp().(*opchildtypes.MsgInitiateTokenWithdrawalResponse).Sequence
		w.run.Check("C09.response_sequence", seq == w.nextL2, "c09.response_seq", w.tr(), "withdrawal response sequence %d, expected %d", seq, w.nextL2)
		evs := res.EventsOfType(opchildtypes.EventTypeInitiateTokenWithdrawal)
		w.run.Check("C09.exactly_one_event", len(evs) == 1, "c09.event_count", w.tr(), "%d withdrawal events", len(evs))
		w.withdrawEvents(res, user.String(), to, denom, amt)
		w.add(denom, new(big.Int).Neg(amt.BigInt()))
		// exact burn: only the signer's balance moves, by exactly amt
		after := sim.AllBalances(l2.Ctx, l2.BK)
		exp := expectDelta{}
		exp.add(user.String(), denom, new(big.Int).Neg(amt.BigInt()))
		okb := true
		addrs := map[string]struct{}{}
		for a := range before {
			addrs[a] = struct{}{}
		}
		for a := range after {
			addrs[a] = struct{}{}
		}
		for a := range addrs {
			if deltaString(coinsDelta(before[a], after[a])) != deltaString(exp[a]) {
				okb = false
			}
		}
		w.run.Check("C09.burn_exact_signer_only", okb, "c09.burn_not_exact", w.tr(), "withdrawal of %s%s by %s changed balances other than the signer's by exactly that amount", amt, short(denom), user.Name)
		w.feat["withdraw_ok"]++
		w.run.Distinct(fmt.Sprintf("withdraw/%s/%s/ok", kind, cls))
	} else {
		if kind != "bridged" {
			w.run.Hit("C09.only_l1_tokens_withdrawable")
			w.feat["non_bridged_rejected"]++
		}
		if cls == "above" {
			w.feat["overdraw_rejected"]++
		}
		if kind == "bridged" && hasPair && (cls == "below" || cls == "equal") && amt.IsPositive() && amt.LTE(bal) {
			w.run.Check("C09.valid_withdrawal_accepted", false, "c09.valid_withdrawal_rejected", w.tr(), "withdrawal of %s within balance %s rejected: %s", amt, bal, res.ErrString())
		}
		w.run.Distinct(fmt.Sprintf("withdraw/%s/%s/rejected", kind, cls))
	}
	w.invariants()
}

// opDiscarded: things that happen on a branch which is then thrown away (a failed transaction, a simulation,
// CheckTx): a deposit that names another base denom or "bridges" a native token, and a refund or withdrawal there.
// Nothing of it may be visible afterwards.
func (w *c09World) opDiscarded() {
	e := w.e
	br := e.Branch()
	l1d := mon.Pick(w.rng, []string{"uinit", "uusdc", "ueth", "unever"})
	denom := e.L2Denom(l1d)
	if w.rng.Chance(35) {
		denom = mon.Pick(w.rng, w.natives) // an executor's message "bridging" a native token, never committed
	}
	to := mon.Pick(w.rng, []string{"garbage", mon.Pick(w.rng, e.Users).String()})
	msg := opchildtypes.NewMsgFinalizeTokenDeposit(e.Executors[0].String(), "l1x", to, sdk.NewCoin(denom, math.NewInt(int64(1+w.rng.Intn(1000)))), w.nextL1, 1, "ubogus", nil)
	r1 := br.L2.Deliver(msg)
	r2 := br.L2.Deliver(opchildtypes.NewMsgInitiateTokenWithdrawal(mon.Pick(w.rng, e.Users).String(), "l1r", sdk.NewCoin(denom, math.NewInt(1))))
	w.log = append(w.log, fmt.Sprintf("on a discarded branch: deposit of %s with base ubogus to %s -> %s; withdrawal -> %s", short(denom), short(to), r1.Class, r2.Class))
	w.invariants()
}

func (w *c09World) opTransfer() {
	l2 := w.e.L2
	from, to := mon.Pick(w.rng, w.e.Users), mon.Pick(w.rng, w.e.Users)
	bals := l2.BK.GetAllBalances(l2.Ctx, from.Addr)
	if len(bals) == 0 || from.String() == to.String() {
		return
	}
	c := bals[w.rng.Intn(len(bals))]
	amt := math.NewInt(1 + int64(w.rng.Intn(int(minI64(c.Amount.Int64(), 1<<30)))))
	res := l2.Deliver(banktypes.NewMsgSend(from.Addr, to.Addr, sdk.NewCoins(sdk.NewCoin(c.Denom, amt))))
	w.log = append(w.log, fmt.Sprintf("transfer %s%s %s->%s -> %s", amt, short(c.Denom), from.Name, to.Name, res.Class))
	w.invariants()
}

func checkC09(run *mon.Run, rng *mon.Rand, thorough bool) {
	run.Rule = "seeded random L2 histories: deposits (credited, refunded to unusable recipients, zero, naming a conflicting base denom), transfers, withdrawals by any user of bridged / native / never-seen denoms for amounts below, equal to and above the balance and zero; supply ledger, gap-free shared L2 sequence, write-once denom mapping and exact signer-only burn checked after every message. Distinct non-trivial = (denom kind, amount class, outcome) cells x histories that contain a refund, a conflicting-base deposit, a rejected non-bridged withdrawal and an overdraw attempt Plus: committed replays of processed sequences naming other denoms, deposits with an error/panic injected at the handler's mint/transfer, shadow activity on discarded branches."
	run.Assumptions = []string{"bank is the cosmos-sdk keeper", "rejected withdrawals are rolled back by baseapp (handler burns before it learns the denom is not bridged)"}
	for _, c := range []string{"C09.supply_conserved", "C09.l2_sequence_query", "C09.denom_pair_write_once", "C09.no_pair_for_non_l1_tokens", "C09.l2_sequence_gap_free", "C09.event_base_denom_from_pair",
		"C09.only_l1_tokens_withdrawable", "C09.response_sequence", "C09.burn_exact_signer_only", "C09.event_faithful"} {
		run.Declare(c, 20)
	}
	hist := pick(thorough, 10, 300)
	steps := pick(thorough, 500, 1500)
	for h := 0; h < hist && !run.TooMany(); h++ {
		r := rng.Split()
		// a third of the chains never registers its bridge info (deposits, refunds and the denom map exist without it)
		e := newL2Env(L2EnvOpts{NoBridgeInfo: r.Chance(33)})
		w := &c09World{run: run, rng: r, e: e, supply: map[string]*big.Int{}, pairs: map[string]string{}, nextL1: 1, nextL2: 1, feat: map[string]int{}, natives: []string{"unative", "ugas"}}
		if r.Bool() {
			// the fee collector holds bridged tokens (fees collected in them, here put there directly)
			for _, d := range []string{"uinit", "uusdc"} {
				c := sdk.NewCoin(e.L2Denom(d), math.NewInt(50_000_000))
				e.L2.FundModule(authtypes.FeeCollectorName, c)
				w.add(c.Denom, c.Amount.BigInt())
			}
		}
		for _, u := range e.Users {
			for _, d := range w.natives {
				e.L2.Fund(u.Addr, sdk.NewCoin(d, math.NewInt(1_000_000)))
			}
		}
		// a native token normally has bank metadata (display name etc.); that must not make it look bridged
		e.L2.BK.SetDenomMetaData(e.L2.Ctx, banktypes.Metadata{Base: "unative", Display: "native", Name: "native gas token", Symbol: "NATIVE",
			DenomUnits: []*banktypes.DenomUnit{{Denom: "unative", Exponent: 0}, {Denom: "native", Exponent: 6}}})
		if r.Bool() {
			d := e.L2Denom("ueth") // somebody registered bank metadata for this bridged denom before its first deposit
			e.L2.BK.SetDenomMetaData(e.L2.Ctx, banktypes.Metadata{Base: d, Display: "eth", Name: "pre-registered", Symbol: "ETH",
				DenomUnits: []*banktypes.DenomUnit{{Denom: d, Exponent: 0}, {Denom: "eth", Exponent: 18}}})
		}
		e.L2.Speculate = r.Bool()
		if r.Bool() {
			e.EnableShadow(r.U64())
		}
		for s := 0; s < steps && !run.TooMany(); s++ {
			switch x := r.Intn(100); {
			case x < 35:
				w.opDeposit()
			case x < 75:
				w.opWithdraw()
			case x < 88:
				w.opTransfer()
			case x < 93:
				w.opDiscarded()
			case x < 96:
				w.opStaleReplay()
				if r.Chance(25) {
					ok := migrateL2(e)
					w.log = append(w.log, fmt.Sprintf("chain exported and restarted from its genesis -> imported=%v", ok))
					w.invariants()
				}
			default:
				e.L2.NextBlock(1e9)
			}
		}
		if w.feat["refund"] > 0 && w.feat["conflicting_base"] > 0 && w.feat["non_bridged_rejected"] > 0 && w.feat["overdraw_rejected"] > 0 {
			run.Distinct("hist/" + sim.Digest(e.L2.Dump("opchild", "bank")))
		}
		if h == 0 {
			run.Sample(map[string]interface{}{"history": 0, "first_steps": w.log[:minInt(len(w.log), 25)]})
		}
		for k, v := range w.feat {
			run.Counters["feature."+k] += v
		}
	}
	run.Extra["histories"] = hist
}

func minInt(a, b int) int {
	if a < b {
		return a
	}
	return b
}
