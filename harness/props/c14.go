package props

import (
	"fmt"
	"sort"
	"strings"

	"cosmossdk.io/math"
	cryptotypes "github.com/cosmos/cosmos-sdk/crypto/types"
	sdk "github.com/cosmos/cosmos-sdk/types"

	opchildtypes "github.com/initia-labs/OPinit/x/opchild/types"

	"verifharness/mon"
	"verifharness/sim"
)

func init() { register("C14", "exploration", checkC14) }

type c14 struct {
	run   *mon.Run
	rng   *mon.Rand
	bases []*valWorld
	seen  map[string]struct{}
}

func (c *c14) pubKeyJSON(w *valWorld, pk cryptotypes.PubKey) string {
	bz, err := w.e.L2.Enc.Codec.MarshalInterfaceJSON(pk)
	if err != nil {
		panic(err)
	}
	return string(bz)
}

// collect enumerates validator-set states reachable by <= depth operations.
func (c *c14) collect(w *valWorld, depth int) {
	k := sim.Digest(w.e.L2.Dump(opchildtypes.StoreKey)) + setString(w.e.L2.EngineSet())
	if _, ok := c.seen[k]; !ok {
		c.seen[k] = struct{}{}
		c.bases = append(c.bases, w)
	}
	if depth == 0 {
		return
	}
	for i := 1; i <= 3; i++ {
		n := w.fork()
		if n.addValidator(NewValKey(i), i, i).Class == sim.OK {
			c.collect(n, depth-1)
		}
		n = w.fork()
		if n.removeValidator(NewValKey(i).Operator, i).Class == sim.OK {
			c.collect(n, depth-1)
		}
	}
	n := w.fork()
	if n.endBlock() {
		c.collect(n, depth-1)
	}
}

type planClass struct {
	opKind  string // "new-operator" | "known-operator"
	keyKind string // "new-key" | "own-key" | "other-operators-key"
}

func (p planClass) String() string { return p.opKind + "/" + p.keyKind }

// structural class of a concrete plan w.r.t. the state it is applied to (used for known-finding signatures)
func (c *c14) structural(w *valWorld, planOp string, planCons string) string {
	opExists, opKey := false, ""
	keyHolder := ""
	for _, v := range w.stateValidators() {
		if v.operator == planOp {
			opExists, opKey = true, v.cons
		}
		if v.cons == planCons {
			keyHolder = v.operator
		}
	}
	switch {
	case opExists && opKey != planCons && keyHolder != "" && keyHolder != planOp:
		return "plan.operator_exists_with_other_key+key_held_by_other_operator"
	case opExists && opKey != planCons:
		return "plan.operator_exists_with_other_key"
	case keyHolder != "" && keyHolder != planOp:
		return "plan.key_held_by_other_operator"
	}
	return "plan.regular"
}

func (c *c14) scenario(base *valWorld, cls planClass, maxVals uint32, execs []string, midBlockOp string) {
	run := c.run
	w := base.fork()
	w.pfx = "C14"
	snap := w.e.L2.SnapshotPlans()
	defer w.e.L2.RestorePlans(snap)

	if w.setParams(func(p *opchildtypes.Params) { p.MaxValidators = maxVals }, fmt.Sprintf("set_max(%d)", maxVals)).Class != sim.OK {
		return // this maximum is not reachable from this state
	}
	svals := w.stateValidators()
	// choose the plan's operator and key according to the class
	var planOp sim.Account
	var planKey ValKey
	known := map[string]stateVal{}
	for _, v := range svals {
		known[v.operator] = v
	}
	opIdx, keyIdx := 9, 9
	switch cls.opKind {
	case "known-operator":
		found := false
		for i := 1; i <= 3; i++ {
			if _, ok := known[NewValKey(i).Operator.Val()]; ok {
				opIdx, found = i, true
				break
			}
		}
		if !found {
			return
		}
	}
	planOp = NewValKey(opIdx).Operator
	switch cls.keyKind {
	case "new-key":
		keyIdx = 9
		if cls.opKind == "new-operator" {
			keyIdx = 8
		}
	case "own-key":
		if cls.opKind != "known-operator" {
			return
		}
		// the key this operator currently holds
		for i := 1; i <= 3; i++ {
			if NewValKey(i).ConsAddrHex() == known[planOp.Val()].cons {
				keyIdx = i
			}
		}
		if keyIdx == 9 {
			return
		}
	case "other-operators-key":
		found := false
		for i := 1; i <= 3; i++ {
			for _, v := range svals {
				if v.cons == NewValKey(i).ConsAddrHex() && v.operator != planOp.Val() {
					keyIdx, found = i, true
				}
			}
		}
		if !found {
			return
		}
	}
	planKey = NewValKey(keyIdx)
	structural := c.structural(w, planOp.Val(), planKey.ConsAddrHex())

	h := uint64(w.e.L2.Ctx.BlockHeight()) + 1
	// plans for heights that have already passed must never fire ("at no other height")
	if cur := uint64(w.e.L2.Ctx.BlockHeight()); cur > 1 {
		for k, past := range []uint64{cur - 1, 1} {
			ov := NewValKey(20 + k)
			_ = w.e.L2.K.RegisterExecutorChangePlan(uint64(90+k), past, ov.Operator.Val(), "overdue", c.pubKeyJSON(w, ov.Pub), "overdue", []string{sim.NewAccount("overdue-exec").String()})
		}
	}
	err := w.e.L2.K.RegisterExecutorChangePlan(7, h, planOp.Val(), "next-sequencer", c.pubKeyJSON(w, planKey.Pub), "info", execs)
	run.Evaluations++
	w.logf("register_plan(height=%d operator=op%d key=key%d executors=%d class=%s structural=%s) -> %v", h, opIdx, keyIdx, len(execs), cls, structural, err)
	if err != nil {
		run.Check("C14.wellformed_plan_registers", false, "c14.wellformed_plan_rejected", w.path, "well-formed plan rejected: %v", err)
		return
	}
	w.sigClass = "c14." + structural
	sig := func(clause string) string { return "c14." + structural + "." + clause }

	// ---- block h-1: the plan must have no effect ----
	paramsBefore, _ := w.e.L2.K.GetParams(w.e.L2.Ctx)
	execBefore := strings.Join(paramsBefore.BridgeExecutors, ",")
	if !w.endBlock() {
		if w.m.halted {
			return
		}
		return
	}
	p1, _ := w.e.L2.K.GetParams(w.e.L2.Ctx)
	run.Check("C14.no_effect_before_height", strings.Join(p1.BridgeExecutors, ",") == execBefore, "c14.effect_before_height", w.path, "executors changed before the plan height")
	// who is an executor is decided by what the chain accepts, not only by what the params query shows: an
	// executor-gated message (a deposit finalization) is offered by every old and every planned executor
	candidates := append(append([]string(nil), paramsBefore.BridgeExecutors...), execs...)
	candidates = append(candidates, sim.NewAccount("c14-stranger").String())
	authProbe := func(when string, allowed []string, clause, sg string) {
		for _, x := range candidates {
			ok := false
			xb, _ := sdk.AccAddressFromBech32(x)
			for _, a := range allowed {
				ab, err := sdk.AccAddressFromBech32(a)
				ok = ok || (err == nil && ab.Equals(xb)) // the list names accounts; how an address is spelled does not matter
			}
			pb := w.e.Branch()
			res := pb.L2.Deliver(pb.DepositMsg(sim.Account{Addr: sdk.MustAccAddressFromBech32(x)}, pb.NextL1Seq(), "l1from", w.e.Users[1].String(), "uinit", math.NewInt(5), nil))
			run.Evaluations++
			run.Check(clause, (res.Class == sim.OK) == ok, sg, append(append([]string(nil), w.path...), fmt.Sprintf("%s: deposit finalization offered by %s -> %s %s", when, x, res.Class, res.ErrString())), "%s: deposit finalization by %s accepted=%v, the executor list in force says %v", when, x, res.Class == sim.OK, ok)
		}
	}
	authProbe("before the plan height", paramsBefore.BridgeExecutors, "C14.no_effect_before_height", "c14.authorised_before_height")
	planCons := planKey.ConsAddrHex()
	_, inEngine := w.e.L2.EngineSet()[planCons]
	wasBonded := base.e.L2.EngineSet()[planCons] > 0
	run.Check("C14.no_effect_before_height", inEngine == wasBonded || w.m.lastBonded[planCons] > 0 == inEngine, "c14.effect_before_height", w.path, "plan validator entered the engine set before the plan height")

	// ---- block h: optionally another validator operation in the same block ----
	switch midBlockOp {
	case "add":
		w.addValidator(NewValKey(3), 3, 3)
	case "remove":
		for i := 1; i <= 3; i++ {
			if w.removeValidator(NewValKey(i).Operator, i).Class == sim.OK {
				break
			}
		}
	}
	l2 := w.e.L2
	if (len(execs)+int(maxVals))%2 == 0 {
		// the plan block is first executed on a branch that is thrown away (a replayed / aborted block execution)
		sb := l2.Branch()
		sbr := sb.EndBlock()
		w.logf("end_block(h=%d, PLAN) executed on a discarded branch first: err=%v", l2.Ctx.BlockHeight(), sbr.EndErr)
	}
	br := l2.EndBlock()
	run.Evaluations++
	w.logf("end_block(h=%d, PLAN) updates=[%s] err=%v engine=%v", l2.Ctx.BlockHeight(), updatesString(br.Updates), br.EndErr, br.EngineErr)
	if !run.Check("C14.block_processing_does_not_fail", br.EndErr == nil && br.PanicEnd == nil, sig("endblock_failed"), w.path, "EndBlocker failed at the plan height: err=%v panic=%v", br.EndErr, br.PanicEnd) {
		return
	}
	if !run.Check("C14.engine_accepts_plan_batch", br.EngineErr == nil, sig("engine_rejects"), w.path, "consensus engine rejects the batch returned at the plan height [%s]: %v", updatesString(br.Updates), br.EngineErr) {
		return
	}
	engine := l2.EngineSet()
	want := map[string]int64{planCons: 1}
	run.Check("C14.engine_has_exactly_plan_validator", setString(engine) == setString(want), sig("engine_set"), w.path, "after the plan height the engine set is {%s}, expected exactly the plan's validator {%s}", setString(engine), setString(want))
	state := map[string]int64{}
	for _, v := range w.stateValidators() {
		if v.power > 0 {
			state[v.cons] = v.power
		}
	}
	run.Check("C14.state_agrees", setString(state) == setString(want), sig("state_set"), w.path, "after the plan height positive-power validators in state are {%s}, expected {%s}", setString(state), setString(want))
	p2, _ := l2.K.GetParams(l2.Ctx)
	gotE, wantE := append([]string(nil), p2.BridgeExecutors...), append([]string(nil), execs...)
	sort.Strings(gotE)
	sort.Strings(wantE)
	run.Check("C14.executors_replaced", strings.Join(gotE, ",") == strings.Join(wantE, ","), sig("executors"), w.path, "after the plan height executors are %v, plan lists %v", gotE, wantE)
	authProbe("after the plan height", execs, "C14.executors_replaced", sig("executors_authorised"))
	run.Distinct(fmt.Sprintf("plan/%s/%s/max%d/execs%d/mid=%s/vals%d", cls, structural, maxVals, len(execs), midBlockOp, len(svals)))
	// full C13-style comparison too (index bijection, last powers)
	w.compareSets("after plan height")

	// ---- block h+1: exactly once ----
	if err, pv := l2.BeginBlock(1e9); err != nil || pv != nil {
		run.Check("C14.block_processing_does_not_fail", false, sig("beginblock_failed"), w.path, "BeginBlocker after the plan height failed: %v %v", err, pv)
		return
	}
	// an operation after the plan: add a validator; the plan must not wipe it at h+1
	extra := NewValKey(5)
	addRes := w.addValidator(extra, 5, 5)
	br2 := l2.EndBlock()
	w.logf("end_block(h=%d, after plan) updates=[%s] err=%v engine=%v", l2.Ctx.BlockHeight(), updatesString(br2.Updates), br2.EndErr, br2.EngineErr)
	if !run.Check("C14.block_processing_does_not_fail", br2.EndErr == nil && br2.EngineErr == nil, sig("after_plan_block_failed"), w.path, "block after the plan height failed: %v / %v", br2.EndErr, br2.EngineErr) {
		return
	}
	want2 := map[string]int64{planCons: 1}
	if addRes.Class == sim.OK {
		want2[extra.ConsAddrHex()] = 1
	}
	run.Check("C14.applied_exactly_once", setString(l2.EngineSet()) == setString(want2), sig("reapplied"), w.path, "one block after the plan height the engine set is {%s}, expected {%s}", setString(l2.EngineSet()), setString(want2))
	p3, _ := l2.K.GetParams(l2.Ctx)
	gotE3 := append([]string(nil), p3.BridgeExecutors...)
	sort.Strings(gotE3)
	run.Check("C14.applied_exactly_once", strings.Join(gotE3, ",") == strings.Join(wantE, ","), sig("executors_after"), w.path, "executors changed again after the plan height: %v", gotE3)
}

func (c *c14) malformed(base *valWorld) {
	run := c.run
	k := base.e.L2.K
	goodKey := c.pubKeyJSON(base, NewValKey(9).Pub)
	goodOp := NewValKey(9).Operator.Val()
	goodExec := []string{base.e.Executors[0].String()}
	snap := base.e.L2.SnapshotPlans()
	defer base.e.L2.RestorePlans(snap)
	if err := k.RegisterExecutorChangePlan(1, 500, goodOp, "m", goodKey, "i", goodExec); err != nil {
		run.Fail("C14.wellformed_plan_registers", "c14.wellformed_plan_rejected", nil, "well-formed plan rejected: %v", err)
		return
	}
	type bad struct {
		name string
		f    func() error
	}
	cases := []bad{
		{"proposal id 0", func() error { return k.RegisterExecutorChangePlan(0, 501, goodOp, "m", goodKey, "i", goodExec) }},
		{"height 0", func() error { return k.RegisterExecutorChangePlan(2, 0, goodOp, "m", goodKey, "i", goodExec) }},
		{"duplicate height", func() error { return k.RegisterExecutorChangePlan(3, 500, goodOp, "m", goodKey, "i", goodExec) }},
		{"duplicate height, same proposal id, other payload", func() error {
			return k.RegisterExecutorChangePlan(1, 500, NewValKey(8).Operator.Val(), "other", c.pubKeyJSON(base, NewValKey(8).Pub), "i2", []string{base.e.Executors[1].String()})
		}},
		{"duplicate height, identical re-registration", func() error { return k.RegisterExecutorChangePlan(1, 500, goodOp, "m", goodKey, "i", goodExec) }},
		{"validator address not bech32", func() error { return k.RegisterExecutorChangePlan(4, 502, "nonsense", "m", goodKey, "i", goodExec) }},
		{"validator address with account prefix", func() error {
			return k.RegisterExecutorChangePlan(5, 503, NewValKey(9).Operator.String(), "m", goodKey, "i", goodExec)
		}},
		{"executor address undecodable (last)", func() error {
			return k.RegisterExecutorChangePlan(6, 504, goodOp, "m", goodKey, "i", []string{goodExec[0], "xyz"})
		}},
		{"executor address undecodable (first)", func() error {
			return k.RegisterExecutorChangePlan(6, 508, goodOp, "m", goodKey, "i", []string{"xyz", goodExec[0]})
		}},
		{"executor address undecodable (middle)", func() error {
			return k.RegisterExecutorChangePlan(6, 509, goodOp, "m", goodKey, "i", []string{goodExec[0], "", base.e.Executors[1].String()})
		}},
		{"executor address with validator prefix", func() error {
			return k.RegisterExecutorChangePlan(6, 510, goodOp, "m", goodKey, "i", []string{NewValKey(9).Operator.Val(), goodExec[0]})
		}},
		{"key not JSON", func() error { return k.RegisterExecutorChangePlan(7, 505, goodOp, "m", "not json", "i", goodExec) }},
		{"key JSON of unknown type", func() error {
			return k.RegisterExecutorChangePlan(8, 506, goodOp, "m", `{"@type":"/cosmos.crypto.unknown.PubKey","key":"AAAA"}`, "i", goodExec)
		}},
		{"key empty", func() error { return k.RegisterExecutorChangePlan(9, 507, goodOp, "m", "", "i", goodExec) }},
		// the pending plan's own proposal id, another (free) height, malformed content: refused, and the pending plan stays
		{"pending plan's proposal id, free height, key not JSON", func() error { return k.RegisterExecutorChangePlan(1, 511, goodOp, "m", "not json", "i", goodExec) }},
		{"pending plan's proposal id, free height, executor undecodable", func() error {
			return k.RegisterExecutorChangePlan(1, 512, goodOp, "m", goodKey, "i", []string{"xyz"})
		}},
		{"pending plan's proposal id, free height, validator address not bech32", func() error {
			return k.RegisterExecutorChangePlan(1, 513, "nonsense", "m", goodKey, "i", goodExec)
		}},
		{"pending plan's proposal id, height 0", func() error { return k.RegisterExecutorChangePlan(1, 0, goodOp, "m", goodKey, "i", goodExec) }},
	}
	for _, b := range cases {
		before := fmt.Sprint(len(k.ExecutorChangePlans), planHeights(k.ExecutorChangePlans))
		digest := sim.Digest(base.e.L2.Dump())
		err := func() (err error) {
			defer func() {
				if r := recover(); r != nil {
					err = fmt.Errorf("panic: %v", r)
				}
			}()
			return b.f()
		}()
		run.Evaluations++
		after := fmt.Sprint(len(k.ExecutorChangePlans), planHeights(k.ExecutorChangePlans))
		run.Check("C14.malformed_plan_rejected", err != nil, "c14.malformed_accepted", []string{b.name}, "malformed plan (%s) accepted", b.name)
		run.Check("C14.malformed_plan_no_side_effect", before == after && digest == sim.Digest(base.e.L2.Dump()), "c14.malformed_side_effect", []string{b.name}, "malformed plan (%s) left an entry behind: %s -> %s", b.name, before, after)
		run.Distinct("malformed/" + b.name)
	}
}

// planHeights renders the whole plan table (heights and contents) canonically.
func planHeights(m map[uint64]opchildtypes.ExecutorChangePlan) []string {
	var hs []uint64
	for h := range m {
		hs = append(hs, h)
	}
	sort.Slice(hs, func(i, j int) bool { return hs[i] < hs[j] })
	var out []string
	for _, h := range hs {
		p := m[h]
		out = append(out, fmt.Sprintf("%d:{id=%d val=%s key=%x execs=%v info=%s}", h, p.ProposalID, p.NextValidator.OperatorAddress, p.NextValidator.ConsensusPubkey.Value, p.NextExecutors, p.Info))
	}
	return out
}

func checkC14(run *mon.Run, rng *mon.Rand, thorough bool) {
	run.Rule = "every plan class {new | known operator} x {new key | the operator's own key | a key held by another operator} x executor lists {empty, one, three, overlapping the current ones, one address twice} x max validators {1,2,3,100} x {no other operation, add, remove in the plan block} applied to every validator-set state reachable by <= D add/remove/end-block operations from three genesis sets (D=2 quick, 3 thorough); the engine set, state, executors are read at h-1, h and h+1; malformed plans are offered and the in-memory plan table compared before/after. Distinct non-trivial = (class, structural relation to the state, max, executors, mid-block op, #validators) cells"
	run.Assumptions = []string{"engine oracle = cometbft v0.38.12 types.ValidatorSet", "the plan table is process memory shared by branches; it is snapshotted and restored around every scenario"}
	for _, c := range []string{"C14.block_processing_does_not_fail", "C14.engine_accepts_plan_batch", "C14.engine_has_exactly_plan_validator", "C14.state_agrees", "C14.executors_replaced", "C14.applied_exactly_once",
		"C14.no_effect_before_height", "C14.malformed_plan_rejected", "C14.malformed_plan_no_side_effect"} {
		run.Declare(c, 8)
	}
	c := &c14{run: run, rng: rng, seen: map[string]struct{}{}}
	depth := pick(thorough, 2, 4)
	for g := 1; g <= 3; g++ {
		var gen []ValKey
		for i := 1; i <= g; i++ {
			gen = append(gen, NewValKey(i))
		}
		w := newValWorld(run, "C14", gen, 100, 2)
		if g%2 == 0 {
			w.e.EnableShadow(rng.U64())
		}
		if err, pv := w.e.L2.BeginBlock(1e9); err != nil || pv != nil {
			panic(fmt.Sprint(err, pv))
		}
		w.m.mustHaveHist[w.e.L2.Ctx.BlockHeight()] = true
		c.collect(w, depth)
	}
	run.Extra["base_states"] = len(c.bases)
	c.malformed(c.bases[0])
	classes := []planClass{{"new-operator", "new-key"}, {"new-operator", "other-operators-key"}, {"known-operator", "own-key"}, {"known-operator", "new-key"}, {"known-operator", "other-operators-key"}}
	e0 := c.bases[0].e
	execLists := [][]string{{}, {sim.NewAccount("newexec1").String()}, {sim.NewAccount("newexec1").String(), sim.NewAccount("newexec2").String(), sim.NewAccount("newexec3").String()}, {e0.Executors[0].String(), sim.NewAccount("newexec1").String()},
		{sim.NewAccount("newexec1").String(), sim.NewAccount("newexec2").String(), sim.NewAccount("newexec1").String()}, // names an executor twice
		{strings.ToUpper(sim.NewAccount("newexec1").String()), sim.NewAccount("newexec2").String()}}                     // the first one is spelled in bech32's upper case
	n := 0
	for bi, b := range c.bases {
		for _, cls := range classes {
			for _, mx := range []uint32{1, 2, 3, 100} {
				for mi, mid := range []string{"", "add", "remove"} {
					// executor lists rotate so that every list meets every class; thorough: all lists
					lists := [][]string{execLists[(bi+mi+int(mx))%len(execLists)]}
					if thorough {
						lists = execLists
					}
					for _, ex := range lists {
						c.scenario(b, cls, mx, ex, mid)
						n++
						if run.TooMany() {
							return
						}
					}
				}
			}
		}
	}
	run.Extra["scenarios"] = n
	run.Sample(map[string]interface{}{"scenario": "base state {op1:key1, op2:key2 bonded}, plan(new operator op9, key of op2) at h, max=2, executors=[newexec1], remove(op1) inside block h", "observed_at": []string{"h-1", "h", "h+1"}})
}
