package props

import (
	"context"
	"fmt"
	"sort"
	"strings"
	"time"

	"cosmossdk.io/math"
	sdk "github.com/cosmos/cosmos-sdk/types"

	authtypes "github.com/cosmos/cosmos-sdk/x/auth/types"
	banktypes "github.com/cosmos/cosmos-sdk/x/bank/types"

	ophosttypes "github.com/initia-labs/OPinit/x/ophost/types"

	"verifharness/mon"
	"verifharness/ref"
	"verifharness/sim"
)

func init() { register("C02", "exploration", checkC02) }

// c02State is the harness-side model carried along the DFS.
type c02State struct {
	env     *L1Env
	outputs []*ProposedOutput // live
	paid    map[int]int       // leaf id → times paid
	path    []string
}

type c02DFS struct {
	run     *mon.Run
	rng     *mon.Rand
	leaves  []Withdrawal
	trees   [][]int // tree variants: indexes into leaves
	visited map[string]struct{}
	nodes   int
	period  time.Duration
	user    sim.Account
	base    math.Int
}

func (d *c02DFS) key(s *c02State, depth int) string {
	var sb strings.Builder
	sb.WriteString(sim.Digest(s.env.L1.Dump(ophosttypes.StoreKey, "bank")))
	fmt.Fprintf(&sb, "|%d|%d|", s.env.L1.Time().UnixNano(), depth)
	ks := make([]int, 0, len(s.paid))
	for k := range s.paid {
		ks = append(ks, k)
	}
	sort.Ints(ks)
	for _, k := range ks {
		fmt.Fprintf(&sb, "%d:%d,", k, s.paid[k])
	}
	return sb.String()
}

func (s *c02State) fork() *c02State {
	n := &c02State{env: s.env.Branch(), outputs: append([]*ProposedOutput(nil), s.outputs...), paid: map[int]int{}, path: append([]string(nil), s.path...)}
	for k, v := range s.paid {
		n.paid[k] = v
	}
	return n
}

// monitor: evaluated at every node.
func (d *c02DFS) monitor(s *c02State) {
	l1 := s.env.L1
	total := math.ZeroInt()
	for i, w := range d.leaves {
		leaf := w.Leaf()
		res, err := l1.Q.Claimed(l1.Ctx, &ophosttypes.QueryClaimedRequest{BridgeId: 1, WithdrawalHash: leaf[:]})
		d.run.Check("C02.claimed_query_agrees", err == nil && res.Claimed == (s.paid[i] > 0), "c02.claimed_query", s.path, "Claimed(leaf %d)=%v but paid %d times", i, res, s.paid[i])
		r2, err := l1.Q.Claimed(l1.Ctx, &ophosttypes.QueryClaimedRequest{BridgeId: 2, WithdrawalHash: leaf[:]})
		d.run.Check("C02.claimed_query_other_bridge", err == nil && !r2.Claimed, "c02.claimed_query_cross", s.path, "Claimed(bridge 2, leaf %d of bridge 1) = true", i)
		d.run.Check("C02.paid_at_most_once", s.paid[i] <= 1, "c02.double_payment", s.path, "leaf %d paid %d times", i, s.paid[i])
		total = total.Add(math.NewIntFromUint64(w.Amount).MulRaw(int64(s.paid[i])))
	}
	// the recipient's balance moved by exactly the paid amounts
	bal := l1.BK.GetBalance(l1.Ctx, d.user.Addr, "uinit").Amount
	d.run.Check("C02.recipient_credited_once", bal.Equal(d.base.Add(total)), "c02.recipient_balance", s.path, "recipient balance %s, expected base %s + paid %s", bal, d.base, total)
}

func (d *c02DFS) explore(s *c02State, depth int) {
	if d.run.TooMany() {
		return
	}
	k := d.key(s, depth)
	if _, ok := d.visited[k]; ok {
		return
	}
	d.visited[k] = struct{}{}
	d.nodes++
	d.run.State(k[:64])
	d.monitor(s)
	if depth == 0 {
		return
	}
	next := s.env.NextOutputIndex(1)
	// propose each tree variant (at most 3 live outputs)
	if len(s.outputs) < 3 {
		for ti, tv := range d.trees {
			n := s.fork()
			ws := make([]Withdrawal, len(tv))
			for i, li := range tv {
				ws[i] = d.leaves[li]
			}
			o := BuildOutput(1, ws, ref.TreeShape(ti%2), mon.NewRand(uint64(ti)+uint64(next)*7))
			res := n.env.Propose(o)
			d.run.Evaluations++
			n.path = append(n.path, fmt.Sprintf("propose(idx=%d tree=%v) -> %s", next, tv, res.Class))
			if res.Class == sim.OK {
				n.outputs = append(n.outputs, o)
				d.explore(n, depth-1)
			}
		}
	}
	// delete index i
	for i := uint64(1); i < next; i++ {
		n := s.fork()
		res := n.env.L1.Deliver(ophosttypes.NewMsgDeleteOutput(n.env.Bridges[1].Challenger.String(), 1, i))
		d.run.Evaluations++
		n.path = append(n.path, fmt.Sprintf("delete(%d) -> %s", i, res.Class))
		if res.Class == sim.OK {
			n.outputs = n.outputs[:i-1]
			if len(n.outputs) > 0 {
				n.env.Bridges[1].LastL2 = n.outputs[len(n.outputs)-1].L2Block
			} else {
				n.env.Bridges[1].LastL2 = 0
			}
			d.explore(n, depth-1)
		}
	}
	// advance time: past the period / not past it
	for _, dt := range []time.Duration{d.period + time.Second, d.period / 2} {
		n := s.fork()
		n.env.L1.NextBlock(dt)
		n.path = append(n.path, fmt.Sprintf("advance(%s)", dt))
		d.explore(n, depth-1)
	}
	// finalize leaf l against output i (if the output's tree contains it)
	for oi, o := range s.outputs {
		for pos, w := range o.Ws {
			li := int(w.Seq) - 1
			n := s.fork()
			submitter := n.env.Users[(oi+pos+depth)%len(n.env.Users)]
			res := n.env.L1.Deliver(o.Claim(pos, submitter.String()))
			d.run.Evaluations++
			n.path = append(n.path, fmt.Sprintf("finalize(leaf=%d out=%d by=%s) -> %s %s", li, o.Index, submitter.Name, res.Class, res.ErrString()))
			if res.Class == sim.OK {
				if s.paid[li] > 0 {
					d.run.Fail("C02.paid_at_most_once", "c02.double_payment", n.path, "leaf %d finalized a second time against output %d", li, o.Index)
				}
				n.paid[li]++
				d.run.Hit("C02.first_payment_accepted")
				// the same withdrawal re-submitted under another spelling of the same recipient account
				alt := o.Claim(pos, submitter.String())
				alt.To = strings.ToUpper(alt.To)
				n2 := n.fork()
				r2 := n2.env.L1.Deliver(alt)
				d.run.Evaluations++
				n2.path = append(n2.path, fmt.Sprintf("finalize(leaf=%d out=%d, recipient re-spelled in upper case) -> %s", li, o.Index, r2.Class))
				d.run.Check("C02.respelled_recipient_not_paid_again", r2.Class != sim.OK, "c02.double_payment_respelled", n2.path, "leaf %d paid a second time after re-spelling the recipient address", li)
				// "by whom": the paid withdrawal re-submitted by every kind of privileged account
				for who, addr := range privilegedSubmitters(n.env, 1, w.To) {
					n3 := n.fork()
					r3 := n3.env.L1.Deliver(o.Claim(pos, addr))
					d.run.Evaluations++
					n3.path = append(n3.path, fmt.Sprintf("finalize(leaf=%d out=%d by the %s) -> %s", li, o.Index, who, r3.Class))
					d.run.Check("C02.resubmission_by_anyone_rejected", r3.Class != sim.OK, "c02.double_payment_by."+who, n3.path, "leaf %d paid a second time when re-submitted by the %s", li, who)
				}
				d.explore(n, depth-1)
			} else {
				if s.paid[li] > 0 {
					d.run.Hit("C02.resubmission_rejected")
					d.run.Distinct(fmt.Sprintf("C02/dfs/resubmit/leaf%d/out%d/tree%v", li, o.Index, treeKey(o)))
				}
				// a rejected message leaves the branch unchanged; still a state worth exploring from? no: identical to s.
			}
		}
	}
}

// privilegedSubmitters: accounts whose signature might be given special treatment by a handler.
func privilegedSubmitters(env *L1Env, bridge uint64, recipient string) map[string]string {
	r := env.Bridges[bridge]
	return map[string]string{
		"governance module": env.L1.Gov,
		"proposer":          r.Proposer.String(),
		"challenger":        r.Challenger.String(),
		"recipient":         recipient,
		"bridge escrow":     ophosttypes.BridgeAddress(bridge).String(),
		"ophost module":     authtypes.NewModuleAddress(ophosttypes.ModuleName).String(),
	}
}

// c02Reentrant: while the escrow pays a withdrawal out, code running inside the bank transfer (a send restriction, a
// transfer hook of the host chain) submits the very same claim again on the same context. It must be refused: the
// withdrawal is paid once.
// c02AcrossGenesis: a paid withdrawal stays paid when the chain is restarted from its exported genesis — also on a bridge
// whose escrow was only ever filled by plain bank transfers (no deposit message), and on several bridges at once.
func c02AcrossGenesis(run *mon.Run, rng *mon.Rand) {
	run.Declare("C02.paid_stays_paid_across_genesis", 4)
	for _, funding := range []string{"bank transfer only", "deposit"} {
		env := newL1Env(2, []time.Duration{5 * time.Second, 5 * time.Second})
		user := env.Users[1]
		for _, b := range []uint64{1, 2} {
			if funding == "deposit" {
				if r := env.Deposit(env.Users[0], b, "l2", "uinit", math.NewInt(10_000), nil); r.Class != sim.OK {
					panic(r.ErrString())
				}
			} else if r := env.L1.Deliver(banktypes.NewMsgSend(env.Users[0].Addr, refBridgeAddr(b), sdk.NewCoins(sdk.NewCoin("uinit", math.NewInt(10_000))))); r.Class != sim.OK {
				panic(r.ErrString())
			}
		}
		outs := map[uint64]*ProposedOutput{}
		for _, b := range []uint64{1, 2} {
			outs[b] = env.ProposeTree(b, []Withdrawal{{b, 1, "l2a", user.String(), "uinit", 100}, {b, 2, "l2b", user.String(), "uinit", 200}}, ref.PadLast, rng)
		}
		env.L1.NextBlock(6 * time.Second)
		var tr []string
		for _, b := range []uint64{1, 2} {
			r := env.L1.Deliver(outs[b].Claim(0, user.String()))
			tr = append(tr, fmt.Sprintf("escrow of bridge %d filled by %s; claim of leaf 0 -> %s", b, funding, r.Class))
		}
		ok := migrateL1(env)
		tr = append(tr, fmt.Sprintf("chain exported and restarted from its genesis -> imported=%v", ok))
		if !ok {
			run.Count("C02.genesis_round_trip_not_possible")
			continue
		}
		for _, b := range []uint64{1, 2} {
			leaf := outs[b].Ws[0].Leaf()
			q, err := env.L1.Q.Claimed(env.L1.Ctx, &ophosttypes.QueryClaimedRequest{BridgeId: b, WithdrawalHash: leaf[:]})
			before := env.L1.BK.GetBalance(env.L1.Ctx, user.Addr, "uinit").Amount
			r := env.L1.Deliver(outs[b].Claim(0, env.Users[3].String()))
			got := env.L1.BK.GetBalance(env.L1.Ctx, user.Addr, "uinit").Amount.Sub(before)
			run.Evaluations++
			tr = append(tr, fmt.Sprintf("after the restart: Claimed(bridge %d, leaf 0) = %v err=%v; the claim submitted again -> %s, recipient received %s", b, q, err, r.Class, got))
			run.Check("C02.paid_stays_paid_across_genesis", err == nil && q.Claimed && r.Class != sim.OK && got.IsZero(), "c02.paid_again_after_genesis", tr, "a withdrawal paid before the chain was restarted from its exported genesis: Claimed=%v, re-submission %s, paid %s more", q, r.Class, got)
			// the unpaid sibling is still claimable
			r2 := env.L1.Deliver(outs[b].Claim(1, user.String()))
			run.Check("C02.first_payment_accepted", r2.Class == sim.OK, "c02.unpaid_claim_lost_in_genesis", append(tr, fmt.Sprintf("claim of the unpaid leaf 1 of bridge %d -> %s %s", b, r2.Class, r2.ErrString())), "an unpaid withdrawal could not be claimed after the restart: %s", r2.ErrString())
		}
		run.Distinct("C02/genesis/" + funding)
	}
}

func c02Reentrant(run *mon.Run, rng *mon.Rand) {
	run.Declare("C02.reentrant_claim_paid_once", 4)
	for _, nLeaves := range []int{1, 2, 5} {
		for _, again := range []string{"same submitter", "other submitter", "other spelling"} {
			onSend := new(func(ctx context.Context, from, to sdk.AccAddress, amt sdk.Coins))
			env := newL1EnvOpts(1, []time.Duration{5 * time.Second}, sim.L1Opts{WrapBank: func(b ophosttypes.BankKeeper) ophosttypes.BankKeeper {
				return sim.HookedBank{BankKeeper: b, OnSend: onSend}
			}})
			user := env.Users[1]
			if r := env.Deposit(env.Users[0], 1, "l2", "uinit", math.NewInt(1_000_000), nil); r.Class != sim.OK {
				panic(r.ErrString())
			}
			var ws []Withdrawal
			for i := 0; i < nLeaves; i++ {
				ws = append(ws, Withdrawal{1, uint64(i + 1), "l2sender", user.String(), "uinit", 1000})
			}
			o := env.ProposeTree(1, ws, ref.PadLast, rng)
			env.L1.NextBlock(6 * time.Second)
			before := env.L1.BK.GetBalance(env.L1.Ctx, user.Addr, "uinit").Amount
			nested := ""
			depth := 0
			*onSend = func(ctx context.Context, from, to sdk.AccAddress, amt sdk.Coins) {
				if depth > 0 || !from.Equals(ophosttypes.BridgeAddress(1)) {
					return
				}
				depth++
				defer func() { depth--; _ = recover() }()
				m := o.Claim(0, user.String())
				switch again {
				case "other submitter":
					m.Sender = env.Users[4].String()
				case "other spelling":
					m.To = strings.ToUpper(m.To)
				}
				if _, err := env.L1.Router.Handler(m)(sdk.UnwrapSDKContext(ctx), m); err != nil {
					nested = "refused: " + err.Error()
				} else {
					nested = "ACCEPTED"
				}
			}
			res := env.L1.Deliver(o.Claim(0, user.String()))
			*onSend = nil
			run.Evaluations++
			got := env.L1.BK.GetBalance(env.L1.Ctx, user.Addr, "uinit").Amount.Sub(before)
			tr := []string{fmt.Sprintf("output with %d leaves; claim of leaf 0 -> %s %s; the same claim submitted from inside the payout transfer (%s) -> %s; recipient received %s", nLeaves, res.Class, res.ErrString(), again, nested, got)}
			run.Check("C02.reentrant_claim_paid_once", res.Class == sim.OK && got.Equal(math.NewInt(1000)), "c02.reentrant_double_payment", tr, "a withdrawal of 1000 re-submitted during its own payout: the recipient received %s", got)
			run.Distinct(fmt.Sprintf("C02/reentrant/%d/%s", nLeaves, again))
		}
	}
}

func treeKey(o *ProposedOutput) string {
	var sb strings.Builder
	for _, w := range o.Ws {
		fmt.Fprintf(&sb, "%d", w.Seq)
	}
	return sb.String()
}

func checkC02(run *mon.Run, rng *mon.Rand, thorough bool) {
	run.Rule = "bounded-exhaustive DFS on copy-on-write branches (3 leaves, <=3 live outputs, 4 tree variants incl. a single-leaf tree and overlapping trees; alphabet propose/delete/advance/finalize; state-digest memoisation) + seeded random long histories with re-included leaves, deletions and re-proposals. Distinct non-trivial = re-submissions (leaf, output, tree variant / history position) of an already paid withdrawal that the chain rejected Plus: every paid claim re-submitted by privileged accounts and under an upper-case spelling of the recipient, and a re-entrant scenario (the same claim submitted from inside the payout transfer)."
	run.Assumptions = []string{"withdrawal identity = leaf hash (collision-free)", "DFS depth bound: quick 6, thorough 8"}
	for _, c := range []string{"C02.paid_at_most_once", "C02.claimed_query_agrees", "C02.claimed_query_other_bridge", "C02.recipient_credited_once", "C02.resubmission_rejected", "C02.first_payment_accepted", "C02.resubmission_by_anyone_rejected", "C02.respelled_recipient_not_paid_again"} {
		run.Declare(c, 10)
	}
	c02Reentrant(run, rng)
	c02AcrossGenesis(run, rng)
	period := 10 * time.Second
	env := newL1Env(2, []time.Duration{period, period})
	user := sim.NewAccount("c02recipient")
	if r := env.Deposit(env.Users[0], 1, "l2", "uinit", math.NewInt(100000), nil); r.Class != sim.OK {
		panic(r.ErrString())
	}
	d := &c02DFS{run: run, rng: rng, visited: map[string]struct{}{}, period: period, user: user, base: math.ZeroInt()}
	for i := 0; i < 3; i++ {
		d.leaves = append(d.leaves, Withdrawal{BridgeID: 1, Seq: uint64(i + 1), From: fmt.Sprintf("l2u%d", i), To: user.String(), Denom: "uinit", Amount: uint64(100 + 11*i)})
	}
	d.trees = [][]int{{0, 1}, {0, 1, 2}, {1, 2}, {0}}
	depth := pick(thorough, 6, 8)
	root := &c02State{env: env, paid: map[int]int{}}
	d.explore(root, depth)
	run.Extra["dfs_nodes"] = d.nodes
	run.Extra["dfs_depth"] = depth
	run.Exhaustive = false
	run.Sample(map[string]interface{}{"dfs_alphabet": "propose(tree in {01,012,12,0}) | delete(i) | advance(period+1s | period/2) | finalize(leaf, output)", "depth": depth})

	// ---- random long histories ----
	hist := pick(thorough, 10, 150)
	for h := 0; h < hist && !run.TooMany(); h++ {
		r := rng.Split()
		cfg := WorldCfg{Bridges: 2, Steps: pick(thorough, 300, 600), Periods: []time.Duration{2 * time.Second, 5 * time.Second},
			Weights: map[string]int{"create": 3, "deposit": 12, "propose": 16, "delete": 6, "finalize": 50, "advance": 14, "role": 2}}
		w := newL1World(run, r, MonSet{C02: true}, cfg)
		w.Run()
		if h == 0 {
			n := len(w.log)
			if n > 20 {
				n = 20
			}
			run.Sample(map[string]interface{}{"random_history": 0, "first_steps": w.log[:n]})
		}
	}
	run.Extra["random_histories"] = hist
}
