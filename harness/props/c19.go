package props

import (
	"bytes"
	"encoding/json"
	"fmt"
	"sort"
	"strings"
	"time"

	sdk "github.com/cosmos/cosmos-sdk/types"

	ophosttypes "github.com/initia-labs/OPinit/x/ophost/types"
	ophosthook "github.com/initia-labs/OPinit/x/ophost/types/hook"

	"verifharness/mon"
	"verifharness/sim"
)

func init() { register("C19", "exploration", checkC19) }

// refParse: does the metadata strictly decode as the documented structure?
func refParse(md []byte) (bool, []ophosthook.PortChannelID) {
	if len(md) == 0 {
		return false, nil
	}
	var probe map[string]json.RawMessage
	if err := json.Unmarshal(md, &probe); err != nil {
		return false, nil
	}
	if _, ok := probe["perm_channels"]; !ok {
		return false, nil
	}
	// the documented structure, declared here (not the repository's own types: their decoding is under test)
	var pm struct {
		PermChannels []struct {
			PortID    string `json:"port_id"`
			ChannelID string `json:"channel_id"`
		} `json:"perm_channels"`
	}
	dec := json.NewDecoder(bytes.NewReader(md))
	dec.DisallowUnknownFields()
	if err := dec.Decode(&pm); err != nil {
		return false, nil
	}
	var out []ophosthook.PortChannelID
	for _, pc := range pm.PermChannels {
		out = append(out, ophosthook.PortChannelID{PortID: pc.PortID, ChannelID: pc.ChannelID})
	}
	return true, out
}

type c19World struct {
	run      *mon.Run
	rng      *mon.Rand
	env      *L1Env
	log      []string
	channels []ophosthook.PortChannelID
	metadata map[uint64][]byte
	feat     map[string]int
	forceMD  []byte // the next operation uses exactly this metadata

	savedShadow func(*sim.L1)
	savedSpec   bool
}

func (w *c19World) tr() []string { return tail(w.log, 30) }

func permKey(p, c string) string { return fmt.Sprintf("%d/%s/%s", len(p), p, c) }

func tableString(t map[string]string) string {
	ks := make([]string, 0, len(t))
	for k := range t {
		ks = append(ks, k)
	}
	sort.Strings(ks)
	var sb strings.Builder
	for _, k := range ks {
		sb.WriteString(k + "=" + short(t[k]) + " ")
	}
	return sb.String()
}

type chanState struct {
	exists bool
	seq    uint64
	admin  string
}

func (w *c19World) chanState(pc ophosthook.PortChannelID) chanState {
	l1 := w.env.L1
	seq, ok := l1.Chan.GetNextSequenceSend(l1.Ctx, pc.PortID, pc.ChannelID)
	a := l1.Perm.Admin(l1.Ctx, pc.PortID, pc.ChannelID)
	st := chanState{exists: ok, seq: seq}
	if a != nil {
		st.admin = sdk.AccAddress(a).String()
	}
	return st
}

var c19Corpus = func() [][]byte {
	ch := func(p, c string) string { return fmt.Sprintf(`{"port_id":%q,"channel_id":%q}`, p, c) }
	return [][]byte{
		nil,
		[]byte(``),
		[]byte(`{}`),
		[]byte(`{"perm_channels":[]}`),
		[]byte(`{"perm_channels":null}`),
		[]byte(`{"perm_channels":"transfer/channel-0"}`),
		[]byte(`{"perm_channels":{"port_id":"transfer","channel_id":"channel-0"}}`),
		[]byte(`{"perm_channels":[` + ch("transfer", "channel-0") + `]}`),
		[]byte(`{"perm_channels":[` + ch("transfer", "channel-0") + `,` + ch("transfer", "channel-1") + `]}`),
		[]byte(`{"perm_channels":[` + ch("transfer", "channel-1") + `,` + ch("nft-transfer", "channel-2") + `,` + ch("transfer", "channel-3") + `]}`),
		[]byte(`{"perm_channels":[` + ch("transfer", "channel-0") + `,` + ch("transfer", "channel-0") + `]}`),                   // duplicate in list
		[]byte(`{"perm_channels":[` + ch("transfer", "channel-2") + `],"extra":1}`),                                             // unknown top-level field
		[]byte(`{"perm_channels":[{"port_id":"transfer","channel_id":"channel-2","admin":"me"}]}`),                              // unknown nested field
		[]byte(`{"Perm_Channels":[` + ch("transfer", "channel-2") + `]}`),                                                       // differently-cased key only
		[]byte(`{"PERM_CHANNELS":[` + ch("transfer", "channel-3") + `],"perm_channels":[` + ch("transfer", "channel-2") + `]}`), // both casings
		[]byte(`{"perm_channels":[` + ch("transfer", "channel-2") + `],"perm_channels":[` + ch("transfer", "channel-3") + `]}`), // duplicate key, different values
		[]byte(`{"perm_channels":[` + ch("transfer", "channel-0") + `],"Perm_channels":[` + ch("transfer", "channel-2") + `]}`), // exact key first, another casing after it (the order of the keys matters: the later one decides)
		[]byte(`{"perm_channels":[` + ch("transfer", "channel-1") + `],"PERM_CHANNELS":[` + ch("transfer", "channel-3") + `]}`),
		[]byte(`{"z":0,"perm_channels":[` + ch("transfer", "channel-1") + `,` + ch("transfer", "channel-0") + `],"a":1}`), // unknown keys around it, list not in sorted order
		[]byte(`{"perm_channels":[{"PORT_ID":"transfer","Channel_Id":"channel-3"}]}`),                                     // cased inner keys
		[]byte(`{"perm_channels":[{"port_id":"transfer"}]}`),                                                              // missing channel id
		[]byte(`{"perm_channels":[{"port_id":7,"channel_id":"channel-0"}]}`),                                              // wrong type
		[]byte(`[{"port_id":"transfer","channel_id":"channel-0"}]`),
		[]byte(`perm_channels: transfer/channel-0`),
		[]byte("{\"perm_channels\":[{\"port_id\":\"trans\xfffer\",\"channel_id\":\"channel-0\"}]}"), // invalid UTF-8
		[]byte(`{"perm_channels":[` + ch("transfer", "channel-4") + `]} trailing`),
		[]byte(`{"perm_channels":[` + ch(strings.Repeat("p", 2000), "channel-0") + `]}`),
		[]byte(`{"perm_channels":[` + ch("transfer", "channel-0") + `],"note":"` + strings.Repeat("x", 5200) + `"}`), // > 5 KiB
		[]byte(`{"perm_channels":[` + ch("transfer", "channel-9") + `]}`),                                            // missing channel
		[]byte(`{"nested":{"perm_channels":[` + ch("transfer", "channel-0") + `]}}`),
		[]byte(`null`),
		[]byte(`42`),
		[]byte(`{"perm\u005fchannels":[` + ch("transfer", "channel-1") + `]}`),                  // the key spelled with a JSON escape: still the key perm_channels
		[]byte(`{"perm_channels":[{"port\u005fid":"transfer","channel_id":"channel-3"}]}`),      // escaped inner key
		[]byte(`{"perm_channels":[{"port_id":"tr\u0061nsfer","channel_id":"ch\u0061nnel-4"}]}`), // escaped values: transfer / channel-4
		[]byte("{ \"perm_channels\" :\n\t[ " + ch("transfer", "channel-0") + " ] }"),            // generous white space
	}
}()

// expectAndCheck evaluates the rule for an operation that (re)grants the listed channels to `challenger`.
func (w *c19World) checkGrantOp(kind string, bridge uint64, md []byte, challenger string, before map[string]string, states map[string]chanState, res sim.Result) {
	run := w.run
	after := w.env.L1.Perm.All(w.env.L1.Ctx)
	ok, list := refParse(md)
	run.Distinct(fmt.Sprintf("%s/%s/parses=%v/md=%s", kind, res.Class, ok, sim.Digest([]sim.KV{{Value: md}})[:8]))
	if !ok {
		run.Check("C19.unparsable_metadata_touches_nothing", tableString(before) == tableString(after), "c19.unparsable_touched_perms."+kind, w.tr(), "%s with metadata that does not strictly decode changed channel permissions:\n before %s\n after  %s", kind, tableString(before), tableString(after))
		w.feat["unparsable"]++
		return
	}
	allAllowed := true
	// clearlyGrantable: the narrow case in which nothing can stand in the way — no channel listed twice, and every
	// listed channel is fresh and free or (metadata update only) already administered by this challenger, used or not
	clearlyGrantable := kind != "update_challenger"
	seen := map[string]bool{}
	for _, pc := range list {
		st := states[permKey(pc.PortID, pc.ChannelID)]
		allowed := st.exists && ((st.seq == 1 && st.admin == "") || st.admin == challenger)
		if !allowed {
			allAllowed = false
		}
		if seen[permKey(pc.PortID, pc.ChannelID)] || !st.exists || !((st.seq == 1 && st.admin == "") || (kind == "update_metadata" && st.admin == challenger)) {
			clearlyGrantable = false
		}
		seen[permKey(pc.PortID, pc.ChannelID)] = true
	}
	if !allAllowed {
		run.Check("C19.grant_conditions_enforced", res.Class != sim.OK, "c19.capture."+kind, w.tr(), "%s succeeded although a listed channel is missing, in use, or administered by someone else", kind)
		w.feat["refused"]++
	} else if clearlyGrantable {
		// every listed channel is fresh and free, or already administered by this very challenger (used or not): nothing
		// stands in the way of the operation
		run.Check("C19.grantable_channels_accepted", res.Class == sim.OK, "c19.grantable_refused."+kind, w.tr(), "%s refused although every listed channel exists and is either fresh and free or already administered by the bridge's challenger: %s", kind, res.ErrString())
	}
	if res.Class == sim.OK {
		want := map[string]string{}
		for k, v := range before {
			want[k] = v
		}
		for _, pc := range list {
			want[permKey(pc.PortID, pc.ChannelID)] = challenger
		}
		run.Check("C19.exactly_listed_channels_granted", tableString(want) == tableString(after), "c19.grant_table."+kind, w.tr(), "%s: permission table after the operation\n is     %s\n expect %s", kind, tableString(after), tableString(want))
		if len(list) > 0 {
			w.feat["granted"]++
			run.Distinct(fmt.Sprintf("%s/granted/%d", kind, len(list)))
		}
	} else {
		// a failed operation is rolled back by the transaction; its perm table must equal the previous one
		run.Check("C19.failed_operation_grants_nothing", tableString(before) == tableString(after), "c19.partial_grant."+kind, w.tr(), "%s failed but the permission table changed", kind)
	}
}

func (w *c19World) snapshotStates(md []byte) map[string]chanState {
	out := map[string]chanState{}
	if ok, list := refParse(md); ok {
		for _, pc := range list {
			out[permKey(pc.PortID, pc.ChannelID)] = w.chanState(pc)
		}
	}
	return out
}

func (w *c19World) pickMetadata() []byte {
	if w.forceMD != nil {
		md := w.forceMD
		w.forceMD = nil
		return md
	}
	if w.rng.Chance(35) {
		// generated valid list over the known channels
		n := w.rng.Intn(5)
		var parts []string
		for i := 0; i < n; i++ {
			pc := mon.Pick(w.rng, w.channels)
			parts = append(parts, fmt.Sprintf(`{"port_id":%q,"channel_id":%q}`, pc.PortID, pc.ChannelID))
			if i == 0 && w.rng.Chance(35) {
				parts = append(parts, parts[0]) // the same channel listed twice in a row
			}
		}
		return []byte(`{"perm_channels":[` + strings.Join(parts, ",") + `]}`)
	}
	return mon.Pick(w.rng, c19Corpus)
}

func (w *c19World) opCreate() {
	l1 := w.env.L1
	md := w.pickMetadata()
	n := len(w.env.Bridges) + 1
	challenger := sim.NewAccount(fmt.Sprintf("c19chal%d", w.rng.Intn(4))) // few challengers so that "same challenger" happens
	proposer := sim.NewAccount(fmt.Sprintf("c19prop%d", n))
	before := l1.Perm.All(l1.Ctx)
	states := w.snapshotStates(md)
	faulty := w.armPermFault()
	id, res := w.env.CreateBridge(w.env.Users[0], proposer, challenger, time.Hour, md)
	if w.permFaultFired(faulty, "create", before, res) {
		return
	}
	w.run.Evaluations++
	w.log = append(w.log, fmt.Sprintf("create_bridge challenger=%s metadata=%s -> %s id=%d %s", challenger.Name, trunc(string(md), 120), res.Class, id, res.ErrString()))
	w.checkGrantOp("create", id, md, challenger.String(), before, states, res)
	if res.Class == sim.OK {
		w.metadata[id] = md
	}
}

func (w *c19World) pickBridge() uint64 {
	if len(w.env.Bridges) == 0 {
		return 0
	}
	return uint64(1 + w.rng.Intn(len(w.env.Bridges)))
}

func (w *c19World) opUpdateMetadata() {
	id := w.pickBridge()
	if id == 0 {
		return
	}
	l1 := w.env.L1
	r := w.env.Bridges[id]
	md := w.pickMetadata()
	before := l1.Perm.All(l1.Ctx)
	states := w.snapshotStates(md)
	signer := mon.Pick(w.rng, []string{r.Proposer.String(), l1.Gov})
	faulty := w.armPermFault()
	res := l1.Deliver(ophosttypes.NewMsgUpdateMetadata(signer, id, md))
	if w.permFaultFired(faulty, "update_metadata", before, res) {
		return
	}
	w.run.Evaluations++
	w.log = append(w.log, fmt.Sprintf("update_metadata bridge=%d challenger=%s metadata=%s -> %s %s", id, r.Challenger.Name, trunc(string(md), 120), res.Class, res.ErrString()))
	w.checkGrantOp("update_metadata", id, md, r.Challenger.String(), before, states, res)
	if res.Class == sim.OK {
		w.metadata[id] = md
	}
}

func (w *c19World) opUpdateChallenger() {
	id := w.pickBridge()
	if id == 0 {
		return
	}
	l1 := w.env.L1
	r := w.env.Bridges[id]
	nc := sim.NewAccount(fmt.Sprintf("c19chal%d", w.rng.Intn(4))) // the same few challengers as at creation: shared channels change hands repeatedly
	before := l1.Perm.All(l1.Ctx)
	signer := mon.Pick(w.rng, []string{r.Challenger.String(), l1.Gov})
	res := l1.Deliver(ophosttypes.NewMsgUpdateChallenger(signer, id, nc.String()))
	w.run.Evaluations++
	w.log = append(w.log, fmt.Sprintf("update_challenger bridge=%d %s -> %s: %s %s", id, r.Challenger.Name, nc.Name, res.Class, res.ErrString()))
	after := l1.Perm.All(l1.Ctx)
	ok, list := refParse(w.metadata[id])
	if res.Class == sim.OK {
		want := map[string]string{}
		for k, v := range before {
			want[k] = v
		}
		if ok {
			for _, pc := range list {
				want[permKey(pc.PortID, pc.ChannelID)] = nc.String()
			}
		}
		w.run.Check("C19.challenger_change_hands_over_listed_channels", tableString(want) == tableString(after), "c19.handover", w.tr(), "update_challenger: permission table\n is     %s\n expect %s", tableString(after), tableString(want))
		if ok && len(list) > 0 {
			w.feat["handover"]++
			w.run.Distinct(fmt.Sprintf("handover/%d", len(list)))
		}
		r.Challenger = nc
	} else {
		w.run.Check("C19.failed_operation_grants_nothing", tableString(before) == tableString(after), "c19.partial_grant.update_challenger", w.tr(), "update_challenger failed but the permission table changed")
	}
}

// environment moves: channels appear, send packets, get taken by strangers
func (w *c19World) opChannel() {
	l1 := w.env.L1
	pc := mon.Pick(w.rng, w.channels)
	switch w.rng.Intn(4) {
	case 0:
		l1.Chan.Set(l1.Ctx, pc.PortID, pc.ChannelID, 1)
		w.log = append(w.log, fmt.Sprintf("channel %s/%s opened (next send 1)", pc.PortID, pc.ChannelID))
	case 1:
		if seq, ok := l1.Chan.GetNextSequenceSend(l1.Ctx, pc.PortID, pc.ChannelID); ok {
			l1.Chan.Set(l1.Ctx, pc.PortID, pc.ChannelID, seq+1)
			w.log = append(w.log, fmt.Sprintf("channel %s/%s sent a packet (next send %d)", pc.PortID, pc.ChannelID, seq+1))
		}
	case 2:
		if a := l1.Perm.Admin(l1.Ctx, pc.PortID, pc.ChannelID); a == nil {
			s := sim.NewAccount("c19stranger")
			_ = l1.Perm.SetAdmin(l1.Ctx, pc.PortID, pc.ChannelID, s.Addr)
			w.log = append(w.log, fmt.Sprintf("channel %s/%s taken by a stranger", pc.PortID, pc.ChannelID))
		}
	}
}

func checkC19(run *mon.Run, rng *mon.Rand, thorough bool) {
	run.Rule = "reference model of the grant rule vs the real hook.BridgeHook wired into the real ophost keeper (message path: hook before store, error aborts) in front of in-store channel / permission stand-ins. Random histories of create / update-metadata / update-challenger over bridges sharing 6 channels and few challengers, with a metadata corpus of some 35 entries (valid lists, duplicates, unknown fields, differently-cased and duplicate keys, wrong types, non-JSON, invalid UTF-8, >5 KiB) plus generated lists and lists of 31..90 channels, while channels open, send packets and get taken by strangers. Distinct non-trivial = (operation, outcome class, list length) Both directions of the grant rule are asserted; the reference parser declares the documented structure itself."
	run.Assumptions = []string{"strict decoding is decided with encoding/json (exact-key probe + DisallowUnknownFields)", "one-directional reading: a grant implies the stated channel conditions, and a violated condition implies failure"}
	for _, c := range []string{"C19.unparsable_metadata_touches_nothing", "C19.grant_conditions_enforced", "C19.exactly_listed_channels_granted", "C19.challenger_change_hands_over_listed_channels"} {
		run.Declare(c, 10)
	}
	c19LongLists(run, rng.Split())
	hist := pick(thorough, 80, 2500)
	steps := pick(thorough, 150, 400)
	feat := map[string]int{}
	for h := 0; h < hist && !run.TooMany(); h++ {
		r := rng.Split()
		w := &c19World{run: run, rng: r, env: newL1Env(0, nil), metadata: map[uint64][]byte{}, feat: map[string]int{}}
		w.env.L1.Speculate = r.Bool()
		if r.Bool() {
			w.env.EnableShadow(r.U64())
		}
		for i := 0; i < 5; i++ {
			w.channels = append(w.channels, ophosthook.PortChannelID{PortID: "transfer", ChannelID: fmt.Sprintf("channel-%d", i)})
		}
		w.channels = append(w.channels, ophosthook.PortChannelID{PortID: "nft-transfer", ChannelID: "channel-2"})
		for _, pc := range w.channels[:4] {
			w.env.L1.Chan.Set(w.env.L1.Ctx, pc.PortID, pc.ChannelID, 1)
		}
		for s := 0; s < steps && !run.TooMany(); s++ {
			switch x := r.Intn(100); {
			case x < 25:
				w.opCreate()
			case x < 55:
				w.opUpdateMetadata()
			case x < 75:
				w.opUpdateChallenger()
			default:
				w.opChannel()
			}
		}
		for k, v := range w.feat {
			feat[k] += v
		}
		if h == 0 {
			run.Sample(map[string]interface{}{"history": 0, "first_steps": w.log[:minInt(20, len(w.log))]})
		}
	}
	for k, v := range feat {
		run.Counters["feature."+k] = v
	}
}

// c19LongLists: the rule has no upper bound on the number of listed channels other than the metadata size limit: lists of
// 31..90 channels are granted, handed over and refused (one listed channel missing) like short ones.
func c19LongLists(run *mon.Run, rng *mon.Rand) {
	for _, n := range []int{31, 32, 33, 34, 64, 90} {
		w := &c19World{run: run, rng: rng.Split(), env: newL1Env(0, nil), metadata: map[uint64][]byte{}, feat: map[string]int{}}
		for i := 0; i <= n; i++ {
			w.channels = append(w.channels, ophosthook.PortChannelID{PortID: "transfer", ChannelID: fmt.Sprintf("channel-%d", 100+i)})
		}
		for _, pc := range w.channels[:n] { // the last one does not exist yet
			w.env.L1.Chan.Set(w.env.L1.Ctx, pc.PortID, pc.ChannelID, 1)
		}
		list := func(k int) []byte {
			var parts []string
			for _, pc := range w.channels[:k] {
				parts = append(parts, fmt.Sprintf(`{"port_id":%q,"channel_id":%q}`, pc.PortID, pc.ChannelID))
			}
			return []byte(`{"perm_channels":[` + strings.Join(parts, ",") + `]}`)
		}
		w.forceMD = list(n + 1) // one listed channel is missing: refused
		w.opCreate()
		w.forceMD = list(n - 1)
		w.opCreate()
		if len(w.env.Bridges) == 0 {
			continue // reported by opCreate (a clearly grantable list was refused)
		}
		w.opUpdateChallenger()
		w.forceMD = list(n) // the list grows by one fresh channel
		w.opUpdateMetadata()
		w.opUpdateChallenger()
		w.forceMD = list(n + 1) // grows by a channel that does not exist: refused, nothing changes
		w.opUpdateMetadata()
		last := w.channels[n]
		w.env.L1.Chan.Set(w.env.L1.Ctx, last.PortID, last.ChannelID, 1)
		w.forceMD = list(n + 1)
		w.opUpdateMetadata()
		w.opUpdateChallenger()
		run.Distinct(fmt.Sprintf("long-list/%d", n))
	}
}

// armPermFault: in a few operations the lookup "does this channel already have an admin" fails underneath the hook.
func (w *c19World) armPermFault() bool {
	if w.forceMD != nil || !w.rng.Chance(6) {
		return false
	}
	// only the operation itself runs while the lookup fails: no speculative pre-run, no shadow script on a branch (they
	// share the keeper object and would be counted as the operation's own lookups)
	l1 := w.env.L1
	w.savedShadow, w.savedSpec = l1.Shadow, l1.Speculate
	l1.Shadow, l1.Speculate = nil, false
	p := l1.Perm
	p.FailIsTaken, p.IsTakenFailures = true, 0
	return true
}

// permFaultFired disarms the fault; if a lookup was failed, the operation could not establish that its channels are free:
// it must have failed and granted nothing (reports true: the ordinary expectations do not apply to this operation).
func (w *c19World) permFaultFired(armed bool, kind string, before map[string]string, res sim.Result) bool {
	if !armed {
		return false
	}
	p := w.env.L1.Perm
	fired := p.IsTakenFailures > 0
	p.FailIsTaken = false
	w.env.L1.Shadow, w.env.L1.Speculate = w.savedShadow, w.savedSpec
	if !fired {
		return false
	}
	w.run.Evaluations++
	after := w.env.L1.Perm.All(w.env.L1.Ctx)
	w.log = append(w.log, fmt.Sprintf("%s while the admin lookup fails -> %s %s", kind, res.Class, res.ErrString()))
	w.run.Check("C19.grant_conditions_enforced", res.Class != sim.OK && tableString(before) == tableString(after), "c19.capture.lookup_failed."+kind, w.tr(),
		"%s succeeded (or changed the permission table) although the lookup whether its channels already have an admin failed:\n before %s\n after  %s", kind, tableString(before), tableString(after))
	w.feat["lookup_fault"]++
	return true
}
