package props

import (
	"bytes"
	"encoding/binary"
	"encoding/hex"
	"fmt"
	"math/big"
	"sort"
	"strconv"
	"strings"
	"time"

	"cosmossdk.io/math"
	sdk "github.com/cosmos/cosmos-sdk/types"
	"github.com/cosmos/cosmos-sdk/types/query"
	authtypes "github.com/cosmos/cosmos-sdk/x/auth/types"
	banktypes "github.com/cosmos/cosmos-sdk/x/bank/types"
	distributiontypes "github.com/cosmos/cosmos-sdk/x/distribution/types"

	ophosttypes "github.com/initia-labs/OPinit/x/ophost/types"

	"verifharness/mon"
	"verifharness/ref"
	"verifharness/sim"
)

// ---------------------------------------------------------------------------
// L1 world: random multi-bridge histories over the real ophost handlers with a
// reference model and monitors evaluated after every step.
// ---------------------------------------------------------------------------

// MonSet selects which monitor groups record verdicts in this run.
type MonSet struct{ C01, C02, C03, C05, C10, C11 bool }

type outSnap struct {
	Root     string
	L2Block  uint64
	L1Time   time.Time
	L1Height uint64
}

type wBridge struct {
	id       uint64
	exists   bool
	period   time.Duration
	nextSeq  uint64
	outputs  []*ProposedOutput // live outputs; outputs[i] has index i+1
	dead     []*ProposedOutput
	ledger   map[string]*big.Int
	pairs    map[string]string
	pool     []Withdrawal
	all      []Withdrawal // every fabricated withdrawal
	paid     map[[32]byte]int
	nextL2   uint64
	final    map[uint64]outSnap // outputs once observed final
	pastP    []sim.Account
	pastC    []sim.Account
	metadata []byte
}

// WorldCfg tunes the workload.
type WorldCfg struct {
	Bridges   int
	Periods   []time.Duration
	Steps     int
	MaxIDs    uint64 // ids 1..MaxIDs are addressed (some never created)
	Weights   map[string]int
	TimeSteps []time.Duration // candidate block-time steps (in addition to period-relative ones)
	StartTime time.Time
}

type L1World struct {
	run       *mon.Run
	rng       *mon.Rand
	env       *L1Env
	mons      MonSet
	cfg       WorldCfg
	br        map[uint64]*wBridge
	log       []string
	fee       sdk.Coins
	strangers []sim.Account
	whale     sim.Account
	nCreated  uint64

	// per-history feature flags for non-triviality accounting
	feat map[string]int
}

func (w *L1World) logf(format string, a ...interface{}) {
	w.log = append(w.log, fmt.Sprintf("t=%s h=%d ", w.env.L1.Time().Format("15:04:05.000000000"), w.env.L1.Ctx.BlockHeight())+fmt.Sprintf(format, a...))
}

func (w *L1World) trace() []string {
	n := len(w.log)
	if n > 60 {
		return append([]string{fmt.Sprintf("... %d earlier steps omitted (replay by seed)", n-60)}, w.log[n-60:]...)
	}
	return append([]string(nil), w.log...)
}

func newL1World(run *mon.Run, rng *mon.Rand, mons MonSet, cfg WorldCfg) *L1World {
	w := &L1World{run: run, rng: rng, mons: mons, cfg: cfg, br: map[uint64]*wBridge{}, feat: map[string]int{}}
	w.env = newL1EnvAt(0, nil, cfg.StartTime)
	// half of the histories run every transaction first on a throw-away branch, like CheckTx does
	w.env.L1.Speculate = rng.Bool()
	if rng.Bool() {
		w.env.EnableShadow(rng.U64()) // other transactions on discarded branches before every committed one
	}
	for i := 0; i < 3; i++ {
		s := sim.NewAccount(fmt.Sprintf("stranger%d", i))
		w.strangers = append(w.strangers, s)
		w.env.L1.Fund(s.Addr, sdk.NewCoin("uinit", math.NewInt(1000)))
	}
	w.whale = sim.NewAccount("l1whale")
	for _, d := range w.env.Denoms {
		w.env.L1.Fund(w.whale.Addr, sdk.NewCoin(d, math.NewIntFromUint64(1<<63).MulRaw(64)))
	}
	if cfg.MaxIDs == 0 {
		w.cfg.MaxIDs = uint64(cfg.Bridges) + 2
	}
	for id := uint64(1); id <= w.cfg.MaxIDs; id++ {
		w.br[id] = &wBridge{id: id, nextSeq: 1, ledger: map[string]*big.Int{}, pairs: map[string]string{}, paid: map[[32]byte]int{}, nextL2: 1, final: map[uint64]outSnap{}}
	}
	for i := 0; i < cfg.Bridges; i++ {
		p := 10 * time.Second
		if i < len(cfg.Periods) {
			p = cfg.Periods[i]
		}
		w.opCreateBridge(p, true)
	}
	if cfg.Bridges > 0 && rng.Chance(20) {
		// one bridge of this chain came with an imported genesis in which its deposit counter stands just below 2^63
		// (the counter is a uint64; the values above 2^63 are as good as the ones below)
		id := uint64(1 + rng.Intn(cfg.Bridges))
		v := uint64(1<<63 - 3)
		if err := w.env.L1.K.SetNextL1Sequence(w.env.L1.Ctx, id, v); err != nil {
			panic(err)
		}
		w.br[id].nextSeq = v
		w.logf("bridge %d: next L1 sequence set to %d (as if imported)", id, v)
	}
	return w
}

// ---- observation helpers (boundary only) ----

func (w *L1World) queryOutputs(id uint64) []ophosttypes.QueryOutputProposalResponse {
	var out []ophosttypes.QueryOutputProposalResponse
	var key []byte
	for {
		res, err := w.env.L1.Q.OutputProposals(w.env.L1.Ctx, &ophosttypes.QueryOutputProposalsRequest{BridgeId: id, Pagination: &query.PageRequest{Key: key, Limit: 7}})
		if err != nil {
			panic(err)
		}
		out = append(out, res.OutputProposals...)
		if res.Pagination == nil || len(res.Pagination.NextKey) == 0 {
			break
		}
		key = res.Pagination.NextKey
	}
	return out
}

// bridgeView is a canonical rendering of everything recorded under one bridge id.
func (w *L1World) bridgeView(id uint64) string {
	l1 := w.env.L1
	var sb strings.Builder
	if r, err := l1.Q.Bridge(l1.Ctx, &ophosttypes.QueryBridgeRequest{BridgeId: id}); err == nil {
		sb.WriteString("cfg=" + r.BridgeConfig.String())
	} else {
		sb.WriteString("cfg=<none>")
	}
	ns, _ := l1.Q.NextL1Sequence(l1.Ctx, &ophosttypes.QueryNextL1SequenceRequest{BridgeId: id})
	fmt.Fprintf(&sb, ";nextL1=%d", ns.NextL1Sequence)
	no, _ := l1.K.GetNextOutputIndex(l1.Ctx, id)
	fmt.Fprintf(&sb, ";nextOut=%d;outs=", no)
	for _, o := range w.queryOutputs(id) {
		fmt.Fprintf(&sb, "[%d:%x,%d,%d,%d]", o.OutputIndex, o.OutputProposal.OutputRoot, o.OutputProposal.L2BlockNumber, o.OutputProposal.L1BlockNumber, o.OutputProposal.L1BlockTime.UnixNano())
	}
	tp, err := l1.Q.TokenPairs(l1.Ctx, &ophosttypes.QueryTokenPairsRequest{BridgeId: id})
	if err == nil {
		sb.WriteString(";pairs=")
		for _, p := range tp.TokenPairs {
			sb.WriteString(p.L1Denom + ">" + p.L2Denom + ",")
		}
	}
	sb.WriteString(";claims=")
	_ = l1.K.IterateProvenWithdrawals(l1.Ctx, id, func(_ uint64, h [32]byte) (bool, error) {
		sb.WriteString(hex.EncodeToString(h[:4]))
		return false, nil
	})
	bi, err := l1.Q.BatchInfos(l1.Ctx, &ophosttypes.QueryBatchInfosRequest{BridgeId: id})
	if err == nil {
		fmt.Fprintf(&sb, ";batch=%d:", len(bi.BatchInfos))
		for _, b := range bi.BatchInfos {
			sb.WriteString(b.BatchInfo.Submitter + "/" + b.BatchInfo.ChainType.String() + "@" + strconv.FormatUint(b.Output.L2BlockNumber, 10) + ",")
		}
	}
	sb.WriteString(";escrow=" + w.env.Escrow(id).String())
	return sb.String()
}

// attribute maps a raw ophost store key to the bridge id it belongs to (0 = global / unknown).
func attributeOphostKey(key []byte) (bridge uint64, known bool) {
	if len(key) == 0 {
		return 0, false
	}
	p := key[:1]
	switch {
	case bytes.Equal(p, ophosttypes.NextBridgeIdKey), bytes.Equal(p, ophosttypes.ParamsKey):
		return 0, true
	case bytes.Equal(p, ophosttypes.BridgeConfigPrefix), bytes.Equal(p, ophosttypes.NextL1SequencePrefix), bytes.Equal(p, ophosttypes.TokenPairPrefix),
		bytes.Equal(p, ophosttypes.OutputProposalPrefix), bytes.Equal(p, ophosttypes.NextOutputIndexPrefix), bytes.Equal(p, ophosttypes.ProvenWithdrawalPrefix),
		bytes.Equal(p, ophosttypes.BatchInfoPrefix):
		if len(key) >= 9 {
			return binary.BigEndian.Uint64(key[1:9]), true
		}
	}
	return 0, false
}

// stepObs captures what is needed to evaluate the isolation clauses around one delivery.
type stepObs struct {
	balances map[string]sdk.Coins
	supply   sdk.Coins
	views    map[uint64]string
	dump     []sim.KV
}

func (w *L1World) observe() stepObs {
	o := stepObs{balances: sim.AllBalances(w.env.L1.Ctx, w.env.L1.BK), supply: sim.Supply(w.env.L1.Ctx, w.env.L1.BK), views: map[uint64]string{}}
	for id := range w.br {
		o.views[id] = w.bridgeView(id)
	}
	o.dump = w.env.L1.Dump(ophosttypes.StoreKey)
	return o
}

func coinsDelta(before, after sdk.Coins) map[string]*big.Int {
	d := map[string]*big.Int{}
	for _, c := range after {
		d[c.Denom] = new(big.Int).Set(c.Amount.BigInt())
	}
	for _, c := range before {
		if _, ok := d[c.Denom]; !ok {
			d[c.Denom] = new(big.Int)
		}
		d[c.Denom].Sub(d[c.Denom], c.Amount.BigInt())
	}
	for k, v := range d {
		if v.Sign() == 0 {
			delete(d, k)
		}
	}
	return d
}

func deltaString(d map[string]*big.Int) string {
	ks := make([]string, 0, len(d))
	for k := range d {
		ks = append(ks, k)
	}
	sort.Strings(ks)
	var sb strings.Builder
	for _, k := range ks {
		fmt.Fprintf(&sb, "%s%+d ", k, d[k])
	}
	return strings.TrimSpace(sb.String())
}

// expectDelta is address → denom → signed amount.
type expectDelta map[string]map[string]*big.Int

func (e expectDelta) add(addr, denom string, amt *big.Int) {
	if amt.Sign() == 0 {
		return
	}
	if e[addr] == nil {
		e[addr] = map[string]*big.Int{}
	}
	if e[addr][denom] == nil {
		e[addr][denom] = new(big.Int)
	}
	e[addr][denom].Add(e[addr][denom], amt)
	if e[addr][denom].Sign() == 0 {
		delete(e[addr], denom)
		if len(e[addr]) == 0 {
			delete(e, addr)
		}
	}
}

// checkIsolation evaluates C01's clauses for one successful or failed delivery addressed to bridge `target`.
func (w *L1World) checkIsolation(kind string, target uint64, before, after stepObs, expect expectDelta, ok bool) {
	if !w.mons.C01 {
		return
	}
	run := w.run
	// (a) escrow == ledger for every addressed id
	for id, b := range w.br {
		esc := w.env.Escrow(id)
		good := true
		for _, c := range esc {
			want := b.ledger[c.Denom]
			if want == nil || want.Cmp(c.Amount.BigInt()) != 0 {
				good = false
			}
		}
		for d, v := range b.ledger {
			if v.Sign() != 0 && esc.AmountOf(d).BigInt().Cmp(v) != 0 {
				good = false
			}
		}
		run.Check("C01.conservation", good, "c01.conservation", w.trace(), "bridge %d escrow %s differs from ledger %v after %s", id, esc, b.ledger, kind)
	}
	if !ok {
		return // the rollback of a rejected message is the harness's doing; nothing to learn
	}
	// (b) balance changes are exactly the expected ones
	addrs := map[string]struct{}{}
	for a := range before.balances {
		addrs[a] = struct{}{}
	}
	for a := range after.balances {
		addrs[a] = struct{}{}
	}
	for a := range expect {
		addrs[a] = struct{}{}
	}
	for a := range addrs {
		got := coinsDelta(before.balances[a], after.balances[a])
		want := expect[a]
		gs, ws := deltaString(got), deltaString(want)
		if gs != "" || ws != "" {
			run.Check("C01.balance_deltas_exact", gs == ws, "c01.balance_delta."+kind, w.trace(), "after %s on bridge %d account %s changed by [%s], expected [%s]", kind, target, a, gs, ws)
		}
	}
	run.Check("C01.supply_unchanged", after.supply.String() == before.supply.String(), "c01.supply", w.trace(), "total supply changed by %s: %s -> %s", kind, before.supply, after.supply)
	// (c) views of other bridges unchanged
	for id := range w.br {
		if id == target {
			continue
		}
		// escrow part of the view legitimately changes for a plain bank send to that address only
		run.Check("C01.other_bridges_untouched", before.views[id] == after.views[id], "c01.cross_bridge_view."+kind, w.trace(),
			"%s addressed to bridge %d changed the view of bridge %d:\n before %s\n after  %s", kind, target, id, before.views[id], after.views[id])
	}
	// (d) raw ophost keys: everything that changed belongs to the target (or is a global counter for create)
	for _, d := range sim.DiffKV(before.dump, after.dump) {
		bid, known := attributeOphostKey(d.Key)
		if !known {
			run.Count("C01.unattributed_raw_keys")
			continue
		}
		okKey := bid == target || (bid == 0 && (kind == "create_bridge" || kind == "update_params"))
		run.Check("C01.raw_keys_attributed", okKey, "c01.raw_key."+kind, w.trace(), "%s addressed to bridge %d changed raw ophost key %x (bridge %d)", kind, target, d.Key, bid)
	}
}

// ---- structural monitors (C11), sequence monitors (C10), claim monitors (C02) evaluated at quiescent points ----

func (w *L1World) checkQuiescent() {
	l1 := w.env.L1
	run := w.run
	for id, b := range w.br {
		if w.mons.C10 {
			ns, err := l1.Q.NextL1Sequence(l1.Ctx, &ophosttypes.QueryNextL1SequenceRequest{BridgeId: id})
			run.Check("C10.next_sequence_query", err == nil && ns.NextL1Sequence == b.nextSeq, "c10.next_sequence", w.trace(), "bridge %d next L1 sequence query=%v model=%d", id, ns, b.nextSeq)
			tp, err := l1.Q.TokenPairs(l1.Ctx, &ophosttypes.QueryTokenPairsRequest{BridgeId: id, Pagination: &query.PageRequest{Limit: 1000}})
			if err == nil {
				got := map[string]string{}
				for _, p := range tp.TokenPairs {
					got[p.L2Denom] = p.L1Denom
				}
				same := len(got) == len(b.pairs)
				for k, v := range b.pairs {
					if got[k] != v {
						same = false
					}
				}
				run.Check("C10.token_pairs_fixed", same, "c10.token_pairs", w.trace(), "bridge %d token pairs %v differ from model %v", id, got, b.pairs)
			}
			if !b.exists {
				run.Check("C10.nothing_prerecorded", b.nextSeq == 1 && len(b.pairs) == 0, "c10.prerecorded", w.trace(), "non-existent bridge %d has next sequence %d and %d token pairs recorded", id, b.nextSeq, len(b.pairs))
			}
		}
		if w.mons.C11 || w.mons.C05 {
			outs := w.queryOutputs(id)
			next, _ := l1.K.GetNextOutputIndex(l1.Ctx, id)
			if w.mons.C11 {
				good := uint64(len(outs))+1 == next
				for i, o := range outs {
					if o.OutputIndex != uint64(i)+1 {
						good = false
					}
				}
				run.Check("C11.contiguous", good, "c11.contiguous", w.trace(), "bridge %d outputs %v do not occupy 1..%d", id, outIdx(outs), next-1)
				inc, tmono := true, true
				for i := 1; i < len(outs); i++ {
					if outs[i].OutputProposal.L2BlockNumber <= outs[i-1].OutputProposal.L2BlockNumber {
						inc = false
					}
					if outs[i].OutputProposal.L1BlockTime.Before(outs[i-1].OutputProposal.L1BlockTime) {
						tmono = false
					}
				}
				if len(outs) > 1 {
					run.Check("C11.l2_blocks_increase", inc, "c11.l2block_order", w.trace(), "bridge %d L2 block numbers not strictly increasing", id)
					run.Check("C11.l1_times_monotone", tmono, "c11.l1time_order", w.trace(), "bridge %d L1 proposal times decrease with index", id)
				}
				// model agreement
				same := len(outs) == len(b.outputs)
				if same {
					for i, o := range outs {
						m := b.outputs[i]
						if !bytes.Equal(o.OutputProposal.OutputRoot, m.OutputRoot[:]) || o.OutputProposal.L2BlockNumber != m.L2Block ||
							!o.OutputProposal.L1BlockTime.Equal(m.ProposedAt) || o.OutputProposal.L1BlockNumber != uint64(m.L1Height) {
							same = false
						}
					}
				}
				run.Check("C11.log_matches_model", same, "c11.model", w.trace(), "bridge %d stored outputs differ from the reference list (stored %d, model %d)", id, len(outs), len(b.outputs))
				// final outputs form a prefix
				if b.exists {
					seenNon := false
					prefix := true
					for _, o := range outs {
						f := w.finality(b, o.OutputProposal.L1BlockTime)
						if f == surelyNot {
							seenNon = true
						} else if f == surelyFinal && seenNon {
							prefix = false
						}
					}
					if len(outs) > 0 {
						run.Check("C11.final_prefix", prefix, "c11.final_prefix", w.trace(), "bridge %d has a final output after a non-final one", id)
					}
				}
			}
			if w.mons.C05 && b.exists {
				w.checkFinalityQuiescent(b, outs)
			} else if b.exists {
				w.recordObservedFinal(b, outs)
			}
		}
	}
}

func outIdx(outs []ophosttypes.QueryOutputProposalResponse) []uint64 {
	var r []uint64
	for _, o := range outs {
		r = append(r, o.OutputIndex)
	}
	return r
}

type fin int

const (
	surelyNot fin = iota
	band
	surelyFinal
)

// finality is the three-valued model: final iff T >= T0+P, with a one-second band below it.
func (w *L1World) finality(b *wBridge, proposedAt time.Time) fin {
	return finalityAt(w.env.L1.Time(), proposedAt, b.period)
}

func finalityAt(now, proposedAt time.Time, period time.Duration) fin {
	t := new(big.Int).SetInt64(now.Unix())
	t.Mul(t, big.NewInt(1e9)).Add(t, big.NewInt(int64(now.Nanosecond())))
	t0 := new(big.Int).SetInt64(proposedAt.Unix())
	t0.Mul(t0, big.NewInt(1e9)).Add(t0, big.NewInt(int64(proposedAt.Nanosecond())))
	lim := new(big.Int).Add(t0, big.NewInt(int64(period)))
	if t.Cmp(lim) >= 0 {
		return surelyFinal
	}
	lim.Sub(lim, big.NewInt(1e9))
	if t.Cmp(lim) <= 0 {
		return surelyNot
	}
	return band
}

// recordObservedFinal remembers every output the chain itself shows as final (by the model or by its own query).
func (w *L1World) recordObservedFinal(b *wBridge, outs []ophosttypes.QueryOutputProposalResponse) {
	lf, err := w.env.L1.Q.LastFinalizedOutput(w.env.L1.Ctx, &ophosttypes.QueryLastFinalizedOutputRequest{BridgeId: b.id})
	if err != nil {
		return
	}
	for _, o := range outs {
		if w.finality(b, o.OutputProposal.L1BlockTime) == surelyFinal || o.OutputIndex <= lf.OutputIndex {
			if _, ok := b.final[o.OutputIndex]; !ok {
				b.final[o.OutputIndex] = outSnap{hex.EncodeToString(o.OutputProposal.OutputRoot), o.OutputProposal.L2BlockNumber, o.OutputProposal.L1BlockTime, o.OutputProposal.L1BlockNumber}
			}
		}
	}
}

func (w *L1World) checkFinalityQuiescent(b *wBridge, outs []ophosttypes.QueryOutputProposalResponse) {
	l1 := w.env.L1
	run := w.run
	lf, err := l1.Q.LastFinalizedOutput(l1.Ctx, &ophosttypes.QueryLastFinalizedOutputRequest{BridgeId: b.id})
	if err != nil {
		run.Fail("C05.last_finalized_query", "c05.last_finalized_query_error", w.trace(), "LastFinalizedOutput(%d) failed: %v", b.id, err)
		return
	}
	hiFinal, loNot := uint64(0), uint64(0)
	for _, o := range outs {
		switch w.finality(b, o.OutputProposal.L1BlockTime) {
		case surelyFinal:
			if o.OutputIndex > hiFinal {
				hiFinal = o.OutputIndex
			}
		case surelyNot:
			if loNot == 0 {
				loNot = o.OutputIndex
			}
		}
	}
	if len(outs) > 0 {
		okq := lf.OutputIndex >= hiFinal && (loNot == 0 || lf.OutputIndex < loNot)
		run.Check("C05.last_finalized_query", okq, "c05.last_finalized", w.trace(), "bridge %d LastFinalizedOutput=%d but highest surely-final=%d lowest surely-not-final=%d", b.id, lf.OutputIndex, hiFinal, loNot)
		if lf.OutputIndex > 0 && lf.OutputIndex <= uint64(len(outs)) {
			st := outs[lf.OutputIndex-1].OutputProposal
			run.Check("C05.last_finalized_content", bytes.Equal(st.OutputRoot, lf.OutputProposal.OutputRoot) && st.L2BlockNumber == lf.OutputProposal.L2BlockNumber, "c05.last_finalized_content", w.trace(), "LastFinalizedOutput content differs from stored output %d", lf.OutputIndex)
		}
	}
	// irreversibility: every output once observed final is still there, identical, still final
	for idx, snap := range b.final {
		var cur *ophosttypes.QueryOutputProposalResponse
		if idx >= 1 && idx <= uint64(len(outs)) {
			cur = &outs[idx-1]
		}
		good := cur != nil && hex.EncodeToString(cur.OutputProposal.OutputRoot) == snap.Root && cur.OutputProposal.L2BlockNumber == snap.L2Block &&
			cur.OutputProposal.L1BlockTime.Equal(snap.L1Time) && cur.OutputProposal.L1BlockNumber == snap.L1Height
		run.Check("C05.final_is_irreversible", good, "c05.irreversible", w.trace(), "bridge %d output %d was final and is now missing or different", b.id, idx)
	}
	for _, o := range outs {
		// final by the model, or shown as final by the chain itself (the query names it or a later index)
		if w.finality(b, o.OutputProposal.L1BlockTime) == surelyFinal || o.OutputIndex <= lf.OutputIndex {
			if _, ok := b.final[o.OutputIndex]; !ok {
				b.final[o.OutputIndex] = outSnap{hex.EncodeToString(o.OutputProposal.OutputRoot), o.OutputProposal.L2BlockNumber, o.OutputProposal.L1BlockTime, o.OutputProposal.L1BlockNumber}
			}
		}
	}
}

// ---- operations ----

func (w *L1World) anyUser() sim.Account { return mon.Pick(w.rng, w.env.Users) }

func (w *L1World) pickID() uint64 { return 1 + uint64(w.rng.Intn(int(w.cfg.MaxIDs))) }

func (w *L1World) pickExisting() *wBridge {
	var ids []uint64
	for id, b := range w.br {
		if b.exists {
			ids = append(ids, id)
		}
	}
	if len(ids) == 0 {
		return nil
	}
	sort.Slice(ids, func(i, j int) bool { return ids[i] < ids[j] })
	return w.br[mon.Pick(w.rng, ids)]
}

func (w *L1World) opCreateBridge(period time.Duration, mustSucceed bool) {
	creator := w.anyUser()
	n := w.nCreated + 1
	proposer, challenger := sim.NewAccount(fmt.Sprintf("proposer%d", n)), sim.NewAccount(fmt.Sprintf("challenger%d", n))
	if !mustSucceed && w.rng.Chance(25) {
		// a creator who cannot afford the registration fee names a well-funded proposer and challenger: only the creator
		// ever pays (so the creation fails while the fee is not zero)
		creator = sim.NewAccount(fmt.Sprintf("penniless-creator%d", n))
		w.env.L1.Fund(proposer.Addr, sdk.NewCoin("uinit", math.NewInt(1_000_000)))
		w.env.L1.Fund(challenger.Addr, sdk.NewCoin("uinit", math.NewInt(1_000_000)))
	}
	before := w.observe()
	id, res := w.env.CreateBridge(creator, proposer, challenger, period, nil)
	w.logf("create_bridge creator=%s period=%s -> %s id=%d %s", creator.Name, period, res.Class, id, res.ErrString())
	w.run.Evaluations++
	if mustSucceed && res.Class != sim.OK {
		panic("setup: create bridge failed: " + res.ErrString())
	}
	expect := expectDelta{}
	if res.Class == sim.OK {
		w.nCreated++
		if w.mons.C05 {
			w.run.Check("C05.positive_period_only", period > 0, "c05.nonpositive_period_accepted", w.trace(), "MsgCreateBridge accepted finalization period %s (%d ns)", period, int64(period))
		}
		b := w.br[id]
		if b == nil {
			b = &wBridge{id: id, nextSeq: 1, ledger: map[string]*big.Int{}, pairs: map[string]string{}, paid: map[[32]byte]int{}, nextL2: 1, final: map[uint64]outSnap{}}
			w.br[id] = b
			if id > w.cfg.MaxIDs {
				w.cfg.MaxIDs = id
			}
		}
		if w.mons.C10 {
			w.run.Check("C10.fresh_bridge_clean", b.nextSeq == 1 && len(b.pairs) == 0, "c10.fresh_bridge_not_clean", w.trace(), "bridge %d was created with next sequence %d and %d token pairs already recorded", id, b.nextSeq, len(b.pairs))
		}
		b.exists, b.period = true, period
		for _, c := range w.fee {
			expect.add(creator.String(), c.Denom, new(big.Int).Neg(c.Amount.BigInt()))
			expect.add(authtypes.NewModuleAddress(distributiontypes.ModuleName).String(), c.Denom, c.Amount.BigInt())
		}
		after := w.observe()
		w.checkIsolation("create_bridge", id, before, after, expect, true)
	} else if w.mons.C05 && period > 0 {
		w.run.Count("C05.positive_period_rejected_for_other_reason")
	}
	w.checkQuiescent()
}

var recipientStrings = []string{"init1recipient", "0xabcdef", "cosmos1qyqszqgpqyqszqgpqyqszqgpqyqszqgpjnp7du", "é中", "x",
	"0x52908400098527886E0F7030069857D2E4169EE7", "INIT1QYQSZQGPQYQSZQGPQYQSZQGPQYQSZQGP", "MixedCase/Recipient-ÄÖ", " leading and trailing "}

func (w *L1World) opDeposit() {
	id := w.pickID()
	if w.rng.Chance(2) {
		id = 0
	}
	w.opDepositTo(id)
}

func (w *L1World) opDepositTo(id uint64) {
	b := w.br[id]
	sender := w.anyUser()
	denom := mon.Pick(w.rng, w.env.Denoms)
	var amt math.Int
	switch w.rng.Intn(10) {
	case 0:
		amt = math.ZeroInt()
	case 1:
		amt = math.NewInt(userFunds).MulRaw(1000) // over balance
	case 2:
		// amounts around the signed / unsigned 64-bit boundaries, paid by an account that can afford them
		sender = w.whale
		amt = mon.Pick(w.rng, []math.Int{math.NewIntFromUint64(1<<63 - 1), math.NewIntFromUint64(1 << 63), math.NewIntFromUint64(1<<63 + 12345), math.NewIntFromUint64(1<<64 - 1), math.NewIntFromUint64(1 << 62)})
	case 3:
		amt = math.NewInt(int64(1 + w.rng.Intn(2))) // the smallest positive amounts
	default:
		amt = math.NewInt(int64(1 + w.rng.Intn(100000)))
	}
	to := mon.Pick(w.rng, recipientStrings)
	var data []byte
	if w.rng.Chance(40) {
		data = w.rng.Bytes(w.rng.Intn(64))
	}
	if w.rng.Chance(3) {
		data = w.rng.Bytes(4096)
	}
	before := w.observe()
	res := w.env.Deposit(sender, id, to, denom, amt, data)
	w.run.Evaluations++
	w.logf("deposit bridge=%d from=%s to=%q %s%s data=%dB -> %s %s", id, sender.Name, to, amt, denom, len(data), res.Class, res.ErrString())
	expect := expectDelta{}
	if res.Class == sim.OK {
		if b == nil {
			clause := "C10.real_bridges_only"
			if w.mons.C01 && !w.mons.C10 {
				clause = "C01.conservation" // funds escrowed under an id no bridge has: matched by no deposit into a bridge
			}
			w.run.Fail(clause, "c10.deposit_to_unassigned_id", w.trace(), "deposit to bridge id %d accepted although no bridge has that id (%s%s escrowed)", id, amt, denom)
			return
		}
		seq := res.Resp().(*ophosttypes.MsgInitiateTokenDepositResponse).Sequence
		if w.mons.C01 && !w.mons.C10 && !b.exists {
			w.run.Fail("C01.conservation", "c01.deposit_to_nonexistent_bridge", w.trace(), "deposit accepted for bridge id %d which does not exist: %s%s sits in an escrow that belongs to no bridge (and will be found there by whoever creates bridge %d)", id, amt, denom, id)
		}
		if w.mons.C10 {
			w.run.Check("C10.real_bridges_only", b.exists, "c10.deposit_to_nonexistent_bridge", w.trace(), "deposit accepted for bridge id %d which does not exist (sequence %d consumed, %s%s escrowed)", id, seq, amt, denom)
			w.run.Check("C10.sequence_gap_free", seq == b.nextSeq, "c10.sequence", w.trace(), "bridge %d deposit returned sequence %d, expected %d", id, seq, b.nextSeq)
			w.checkDepositEvent(res, id, b.nextSeq, sender.String(), to, denom, amt, data)
			aft := sim.AllBalances(w.env.L1.Ctx, w.env.L1.BK)
			escAddr := refBridgeAddr(id).String()
			gotEsc := aft[escAddr].AmountOf(denom).Sub(before.balances[escAddr].AmountOf(denom))
			gotSnd := before.balances[sender.String()].AmountOf(denom).Sub(aft[sender.String()].AmountOf(denom))
			w.run.Check("C10.announced_amount_was_moved", gotEsc.Equal(amt) && gotSnd.Equal(amt), "c10.amount_not_moved", w.trace(), "deposit of %s%s announced, but the escrow received %s and the sender paid %s", amt, denom, gotEsc, gotSnd)
			w.run.Distinct(fmt.Sprintf("C10/deposit/b%d/exists=%v/zero=%v/data=%v", id, b.exists, amt.IsZero(), len(data) > 0))
		}
		b.nextSeq = seq + 1
		l2d := ref.L2Denom(id, denom)
		if _, ok := b.pairs[l2d]; !ok {
			b.pairs[l2d] = denom
		}
		if b.ledger[denom] == nil {
			b.ledger[denom] = new(big.Int)
		}
		b.ledger[denom].Add(b.ledger[denom], amt.BigInt())
		expect.add(sender.String(), denom, new(big.Int).Neg(amt.BigInt()))
		expect.add(refBridgeAddr(id).String(), denom, amt.BigInt())
		w.feat["deposit_ok"]++
	} else if w.mons.C10 && b != nil && b.exists && amt.IsPositive() && amt.LT(math.NewInt(userFunds/1000)) {
		w.run.Count("C10.plausible_deposit_rejected")
	} else if w.mons.C10 && b != nil && !b.exists {
		w.run.Hit("C10.real_bridges_only")
		w.run.Distinct(fmt.Sprintf("C10/deposit_refused/b%d", id))
	}
	after := w.observe()
	w.checkIsolation("deposit", id, before, after, expect, res.Class == sim.OK)
	w.checkQuiescent()
}

func (w *L1World) checkDepositEvent(res sim.Result, id, seq uint64, from, to, denom string, amt math.Int, data []byte) {
	evs := res.EventsOfType(ophosttypes.EventTypeInitiateTokenDeposit)
	if !w.run.Check("C10.exactly_one_event", len(evs) == 1, "c10.event_count", w.trace(), "deposit emitted %d %s events", len(evs), ophosttypes.EventTypeInitiateTokenDeposit) {
		return
	}
	e := evs[0]
	want := map[string]string{
		ophosttypes.AttributeKeyBridgeId:   strconv.FormatUint(id, 10),
		ophosttypes.AttributeKeyL1Sequence: strconv.FormatUint(seq, 10),
		ophosttypes.AttributeKeyFrom:       from,
		ophosttypes.AttributeKeyTo:         to,
		ophosttypes.AttributeKeyL1Denom:    denom,
		ophosttypes.AttributeKeyL2Denom:    ref.L2Denom(id, denom),
		ophosttypes.AttributeKeyAmount:     amt.String(),
		ophosttypes.AttributeKeyData:       hex.EncodeToString(data),
	}
	for k, v := range want {
		got, ok := sim.Attr(e, k)
		w.run.Check("C10.event_faithful", ok && got == v, "c10.event."+k, w.trace(), "deposit event attribute %s=%q, expected %q", k, got, v)
	}
}

func (w *L1World) opThirdPartySend() {
	id := w.pickID()
	b := w.br[id]
	sender := w.anyUser()
	denom := mon.Pick(w.rng, w.env.Denoms)
	amt := math.NewInt(int64(1 + w.rng.Intn(5000)))
	before := w.observe()
	res := w.env.L1.Deliver(banktypes.NewMsgSend(sender.Addr, refBridgeAddr(id), sdk.NewCoins(sdk.NewCoin(denom, amt))))
	w.run.Evaluations++
	w.logf("bank_send to escrow(%d) from=%s %s%s -> %s", id, sender.Name, amt, denom, res.Class)
	if res.Class == sim.OK {
		if b.ledger[denom] == nil {
			b.ledger[denom] = new(big.Int)
		}
		b.ledger[denom].Add(b.ledger[denom], amt.BigInt())
		w.feat["third_party"]++
	}
	after := w.observe()
	// a bank send is not a bridge operation: only conservation is checked for it
	if w.mons.C01 {
		w.checkIsolation("bank_send", 0, before, before, expectDelta{}, false)
		_ = after
	}
	w.checkQuiescent()
}

// fabricate creates new L2 withdrawals for bridge b (the in-harness L2 stub).
func (w *L1World) fabricate(b *wBridge, n int) []Withdrawal {
	var out []Withdrawal
	for i := 0; i < n; i++ {
		denom := mon.Pick(w.rng, w.env.Denoms)
		if w.rng.Chance(8) {
			// a withdrawal naming, as its L1 denom, the string that is the L2 name of a token deposited into this bridge
			// (a valid L1 denom; the escrow simply holds none of it unless somebody sent it there)
			denom = ref.L2Denom(b.id, mon.Pick(w.rng, w.env.Denoms))
		}
		wd := Withdrawal{BridgeID: b.id, Seq: b.nextL2, From: fmt.Sprintf("l2user%d", w.rng.Intn(5)), To: w.anyUser().String(), Denom: denom, Amount: uint64(1 + w.rng.Intn(3000))}
		if w.rng.Chance(6) {
			// the named recipient is whoever the L2 user named: a module account on the bank's block list or the ophost module
			// is paid like anybody else (and nobody else is). Escrow addresses are not drawn here: a leaf re-committed under
			// another bridge would then legitimately pay into a sibling's escrow, which the isolation clause reads as interference
			wd.To = mon.Pick(w.rng, []sdk.AccAddress{authtypes.NewModuleAddress(authtypes.FeeCollectorName), authtypes.NewModuleAddress("distribution"),
				authtypes.NewModuleAddress("gov"), authtypes.NewModuleAddress(ophosttypes.ModuleName), recipient32a, recipient32b}).String()
			w.feat["module_recipient"]++
		}
		b.nextL2++
		out = append(out, wd)
		b.all = append(b.all, wd)
	}
	return out
}

func (w *L1World) opPropose() {
	b := w.pickExisting()
	if b == nil {
		return
	}
	roles := w.env.Bridges[b.id]
	ws := w.fabricate(b, 1+w.rng.Intn(6))
	// sometimes re-include older leaves (later outputs whose tree also contains the leaf)
	if len(b.all) > len(ws) && w.rng.Chance(40) {
		for k := 0; k < 1+w.rng.Intn(3); k++ {
			ws = append(ws, b.all[w.rng.Intn(len(b.all)-len(ws)+1)])
		}
	}
	// sometimes a malicious proposer commits a leaf naming another bridge, or the same identity as on another bridge
	if other := w.pickExisting(); other != nil && other.id != b.id && w.rng.Chance(30) {
		if len(other.all) > 0 {
			x := mon.Pick(w.rng, other.all)
			ws = append(ws, x) // leaf names the other bridge
			y := x
			y.BridgeID = b.id // identical (seq, from, to, denom, amount) on this bridge
			ws = append(ws, y)
			b.all = append(b.all, y)
			w.feat["cross_bridge_material"]++
		}
	}
	shape := ref.PadLast
	if w.rng.Bool() {
		shape = ref.Promote
	}
	o := BuildOutput(b.id, ws, shape, w.rng)
	variant := w.rng.Intn(10)
	next := w.env.NextOutputIndex(b.id)
	proposer := roles.Proposer
	idx := next
	l2 := roles.LastL2 + 1 + uint64(w.rng.Intn(5))
	switch variant {
	case 0:
		idx = next + 1
	case 1:
		if next > 1 {
			idx = next - 1
		} else {
			idx = 0
		}
	case 2:
		l2 = roles.LastL2 // not higher
		if len(b.outputs) == 0 {
			l2 = 0
		}
	case 3:
		if roles.LastL2 > 0 {
			l2 = roles.LastL2 - 1
		}
	case 4:
		proposer = roles.Challenger
	case 5:
		proposer = mon.Pick(w.rng, w.strangers)
	}
	if len(b.outputs) > 0 && w.rng.Chance(12) {
		// the proposer re-sends, byte for byte, an output that is already stored (a retry, a duplicated relay): it must
		// be refused, and must not touch the stored output (its clock in particular)
		old := b.outputs[len(b.outputs)-1]
		if w.rng.Chance(30) {
			old = mon.Pick(w.rng, b.outputs)
		}
		stBefore, _ := w.env.L1.Q.OutputProposal(w.env.L1.Ctx, &ophosttypes.QueryOutputProposalRequest{BridgeId: b.id, OutputIndex: old.Index})
		res := w.env.L1.Deliver(ophosttypes.NewMsgProposeOutput(roles.Proposer.String(), b.id, old.Index, old.L2Block, old.OutputRoot[:]))
		w.run.Evaluations++
		stAfter, _ := w.env.L1.Q.OutputProposal(w.env.L1.Ctx, &ophosttypes.QueryOutputProposalRequest{BridgeId: b.id, OutputIndex: old.Index})
		w.logf("propose bridge=%d RESUBMIT of stored output idx=%d l2=%d (next %d) -> %s %s", b.id, old.Index, old.L2Block, next, res.Class, res.ErrString())
		same := stBefore != nil && stAfter != nil && stBefore.OutputProposal.L1BlockTime.Equal(stAfter.OutputProposal.L1BlockTime) && stBefore.OutputProposal.L1BlockNumber == stAfter.OutputProposal.L1BlockNumber
		if w.mons.C11 {
			w.run.Check("C11.propose_only_at_next", res.Class != sim.OK, "c11.resubmission_accepted", w.trace(), "re-submission of the output stored at index %d accepted while next is %d", old.Index, next)
		}
		if w.mons.C05 {
			w.run.Check("C05.proposal_starts_clock_now", same && res.Class != sim.OK, "c05.clock_restarted_by_resubmission", w.trace(), "re-submitting the stored output %d of bridge %d was accepted=%v and changed its recorded proposal time/height: an output that was (or was about to become) final has its clock restarted", old.Index, b.id, res.Class == sim.OK)
		}
		if res.Class == sim.OK || !same {
			w.run.Count("world.history_abandoned_after_accepted_resubmission")
			w.cfg.Steps = 0 // the model is not continued past this point
			return
		}
		w.checkQuiescent()
		return
	}
	before := w.observe()
	res := w.env.L1.Deliver(ophosttypes.NewMsgProposeOutput(proposer.String(), b.id, idx, l2, o.OutputRoot[:]))
	w.run.Evaluations++
	w.logf("propose bridge=%d idx=%d(next %d) l2=%d(last %d) by=%s leaves=%d -> %s %s", b.id, idx, next, l2, roles.LastL2, proposer.Name, len(ws), res.Class, res.ErrString())
	if res.Class == sim.OK {
		o.Index, o.L2Block, o.ProposedAt, o.L1Height = idx, l2, w.env.L1.Time(), w.env.L1.Ctx.BlockHeight()
		if w.mons.C11 {
			w.run.Check("C11.propose_only_at_next", idx == next, "c11.propose_index", w.trace(), "proposal accepted at index %d while next is %d", idx, next)
			w.run.Check("C11.propose_higher_l2_block", len(b.outputs) == 0 || l2 > b.outputs[len(b.outputs)-1].L2Block, "c11.propose_l2block", w.trace(), "proposal accepted with L2 block %d not above the last %d", l2, roles.LastL2)
			w.run.Distinct(fmt.Sprintf("C11/propose/len%d/final%d", len(b.outputs), len(b.final)))
		}
		if w.mons.C05 {
			st, err := w.env.L1.Q.OutputProposal(w.env.L1.Ctx, &ophosttypes.QueryOutputProposalRequest{BridgeId: b.id, OutputIndex: idx})
			w.run.Check("C05.proposal_starts_clock_now", err == nil && st.OutputProposal.L1BlockTime.Equal(w.env.L1.Time()), "c05.proposal_clock", w.trace(), "output %d of bridge %d records proposal time %v, block time is %v", idx, b.id, st, w.env.L1.Time())
			if len(b.dead) > 0 {
				w.run.Distinct(fmt.Sprintf("C05/repropose/idx%d", idx))
			}
		}
		roles.LastL2 = l2
		b.outputs = append(b.outputs, o)
		w.feat["propose_ok"]++
	} else if w.mons.C11 && variant >= 6 {
		w.run.Check("C11.valid_proposal_accepted", false, "c11.valid_proposal_rejected", w.trace(), "a proposal at the next index with a higher L2 block by the proposer was rejected: %s", res.ErrString())
	}
	after := w.observe()
	w.checkIsolation("propose", b.id, before, after, expectDelta{}, res.Class == sim.OK)
	w.checkQuiescent()
}

func (w *L1World) opDelete() {
	b := w.pickExisting()
	if b == nil {
		return
	}
	roles := w.env.Bridges[b.id]
	next := w.env.NextOutputIndex(b.id)
	idx := uint64(w.rng.Intn(int(next) + 2))
	signer := roles.Challenger.String()
	who := "challenger"
	switch w.rng.Intn(6) {
	case 0:
		signer, who = roles.Proposer.String(), "proposer"
	case 1:
		signer, who = w.env.L1.Gov, "gov"
	case 2:
		signer, who = mon.Pick(w.rng, w.strangers).String(), "stranger"
	}
	// model expectation pieces
	var firstFinal fin = surelyNot
	anySurelyFinalInSuffix, anyBand := false, false
	if idx >= 1 && idx < next {
		for k := idx; k < next; k++ {
			if _, seen := b.final[k]; seen {
				anySurelyFinalInSuffix = true // the chain itself has already shown this output as final
			}
		}
		for _, o := range b.outputs[idx-1:] {
			switch w.finality(b, o.ProposedAt) {
			case surelyFinal:
				anySurelyFinalInSuffix = true
			case band:
				anyBand = true
			}
		}
		firstFinal = w.finality(b, b.outputs[idx-1].ProposedAt)
	}
	_ = firstFinal
	before := w.observe()
	res := w.env.L1.Deliver(ophosttypes.NewMsgDeleteOutput(signer, b.id, idx))
	w.run.Evaluations++
	w.logf("delete bridge=%d idx=%d(next %d) by=%s -> %s %s", b.id, idx, next, who, res.Class, res.ErrString())
	if res.Class == sim.OK {
		valid := idx >= 1 && idx < next
		if w.mons.C11 {
			w.run.Check("C11.delete_in_range", valid, "c11.delete_range", w.trace(), "deletion of index %d accepted while next is %d", idx, next)
			w.run.Check("C11.delete_removes_only_nonfinal_suffix", !anySurelyFinalInSuffix, "c11.deleted_final_output", w.trace(), "deletion from index %d on bridge %d removed an output that was already final", idx, b.id)
		}
		if w.mons.C05 {
			w.run.Check("C05.final_not_deletable", !anySurelyFinalInSuffix, "c05.deleted_final_output", w.trace(), "deletion from index %d on bridge %d removed an output that was final", idx, b.id)
			w.run.Distinct(fmt.Sprintf("C05/delete/ok/band=%v", anyBand))
		}
		if valid {
			b.dead = append(b.dead, b.outputs[idx-1:]...)
			b.outputs = b.outputs[:idx-1]
			if len(b.outputs) > 0 {
				roles.LastL2 = b.outputs[len(b.outputs)-1].L2Block
			} else {
				roles.LastL2 = 0
			}
			nn := w.env.NextOutputIndex(b.id)
			if w.mons.C11 {
				w.run.Check("C11.delete_sets_next", nn == idx, "c11.delete_next", w.trace(), "after deleting index %d next index is %d", idx, nn)
				w.run.Distinct(fmt.Sprintf("C11/delete/len%d/at%d", next-1, idx))
			}
			w.feat["delete_ok"]++
		}
	} else {
		if w.mons.C05 && who != "stranger" && idx >= 1 && idx < next && !anySurelyFinalInSuffix && !anyBand {
			// until final, the output can be deleted
			w.run.Check("C05.nonfinal_deletable", false, "c05.nonfinal_not_deletable", w.trace(), "deletion of non-final suffix from %d by %s rejected: %s", idx, who, res.ErrString())
		}
		if w.mons.C05 && anySurelyFinalInSuffix {
			w.run.Hit("C05.final_not_deletable")
			w.run.Distinct("C05/delete/refused_final")
		}
	}
	if w.mons.C05 && res.Class == sim.OK && who != "stranger" && !anySurelyFinalInSuffix && !anyBand {
		w.run.Hit("C05.nonfinal_deletable")
	}
	after := w.observe()
	w.checkIsolation("delete", b.id, before, after, expectDelta{}, res.Class == sim.OK)
	w.checkQuiescent()
}

// claimVerdict is the independent verifier used by the soundness oracle.
type claimVerdict struct {
	outputExists bool
	rootMatches  bool
	proofMatches bool
	fin          fin
	paidBefore   bool
	leaf         [32]byte
	boundary     string // class of T-(T0+P): "<-1s", "band", "==", "+1ns", ">"
}

func (w *L1World) verifyClaim(m *ophosttypes.MsgFinalizeTokenWithdrawal) claimVerdict {
	var v claimVerdict
	l1 := w.env.L1
	if !m.Amount.Amount.IsUint64() {
		return v
	}
	v.leaf = ref.Leaf(m.BridgeId, m.Sequence, m.From, m.To, m.Amount.Denom, m.Amount.Amount.Uint64())
	if b := w.br[m.BridgeId]; b != nil {
		v.paidBefore = b.paid[v.leaf] > 0
	}
	o, err := l1.Q.OutputProposal(l1.Ctx, &ophosttypes.QueryOutputProposalRequest{BridgeId: m.BridgeId, OutputIndex: m.OutputIndex})
	// what the store holds at that index, read by iteration (a per-key read path could be served from somewhere else)
	var listed *ophosttypes.QueryOutputProposalResponse
	for _, lo := range w.queryOutputs(m.BridgeId) {
		if lo.OutputIndex == m.OutputIndex {
			lo := lo
			listed = &lo
		}
	}
	if (err == nil) != (listed != nil) || (listed != nil && !bytes.Equal(listed.OutputProposal.OutputRoot, o.OutputProposal.OutputRoot)) {
		w.run.Fail("C03.single_and_listed_output_agree", "c03.output_read_paths_disagree", w.trace(), "Query/OutputProposal(%d,%d) and the paginated Query/OutputProposals disagree about what index %d stores", m.BridgeId, m.OutputIndex, m.OutputIndex)
	}
	if listed == nil {
		return v
	}
	o = listed
	v.outputExists = true
	if len(m.Version) == 1 && len(m.StorageRoot) == 32 && len(m.LastBlockHash) == 32 {
		or := ref.OutputRoot(m.Version[0], m.StorageRoot, m.LastBlockHash)
		v.rootMatches = bytes.Equal(or[:], o.OutputProposal.OutputRoot)
		r := ref.Root(v.leaf, m.WithdrawalProofs)
		v.proofMatches = bytes.Equal(r[:], m.StorageRoot)
	}
	if b := w.br[m.BridgeId]; b != nil && b.exists {
		v.fin = finalityAt(l1.Time(), o.OutputProposal.L1BlockTime, b.period)
		d := l1.Time().Sub(o.OutputProposal.L1BlockTime.Add(b.period))
		switch {
		case d == 0:
			v.boundary = "=="
		case d == 1:
			v.boundary = "+1ns"
		case d > 1:
			v.boundary = ">"
		case d <= -time.Second:
			v.boundary = "<=-1s"
			if d == -time.Second {
				v.boundary = "==-1s"
			}
		default:
			v.boundary = "band"
		}
	}
	return v
}

func (w *L1World) opFinalize() {
	// pick a bridge with any output (live or dead)
	var cands []*wBridge
	for _, b := range w.br {
		if len(b.outputs)+len(b.dead) > 0 {
			cands = append(cands, b)
		}
	}
	if len(cands) == 0 {
		return
	}
	sort.Slice(cands, func(i, j int) bool { return cands[i].id < cands[j].id })
	b := mon.Pick(w.rng, cands)
	var o *ProposedOutput
	if len(b.dead) > 0 && (len(b.outputs) == 0 || w.rng.Chance(15)) {
		o = mon.Pick(w.rng, b.dead)
	} else {
		o = mon.Pick(w.rng, b.outputs)
	}
	i := w.rng.Intn(len(o.Ws))
	submitterStr := w.anyUser().String()
	if w.rng.Chance(25) {
		ps := privilegedSubmitters(w.env, b.id, o.Ws[i].To)
		submitterStr = ps[mon.Pick(w.rng, []string{"governance module", "proposer", "challenger", "recipient", "bridge escrow", "ophost module"})]
		if _, err := sdk.AccAddressFromBech32(submitterStr); err != nil {
			submitterStr = w.env.L1.Gov
		}
	}
	m := o.Claim(i, submitterStr)
	variant := "valid"
	switch w.rng.Intn(12) {
	case 0:
		if ob := w.pickExisting(); ob != nil && ob.id != b.id {
			m.BridgeId = ob.id
			variant = "other_bridge_id"
		}
	case 1:
		m.OutputIndex = uint64(1 + w.rng.Intn(int(w.env.NextOutputIndex(b.id))+1))
		variant = "other_output_index"
	case 2:
		m.Amount.Amount = m.Amount.Amount.AddRaw(1)
		variant = "amount+1"
	case 3:
		m.Sequence++
		variant = "seq+1"
	case 4:
		m.From, m.To = m.To, m.From
		variant = "swap_from_to"
	case 5:
		if len(m.WithdrawalProofs) > 0 {
			j := w.rng.Intn(len(m.WithdrawalProofs))
			m.WithdrawalProofs[j][w.rng.Intn(32)] ^= 1 << uint(w.rng.Intn(8))
			variant = "proof_bitflip"
		}
	case 6:
		if len(m.WithdrawalProofs) > 0 {
			m.WithdrawalProofs = m.WithdrawalProofs[:len(m.WithdrawalProofs)-1]
			variant = "proof_truncated"
		}
	case 7:
		m.Amount.Denom = mon.Pick(w.rng, w.env.Denoms)
		variant = "denom_changed"
	}
	w.deliverClaim(b, m, variant)
}

func (w *L1World) deliverClaim(b *wBridge, m *ophosttypes.MsgFinalizeTokenWithdrawal, variant string) sim.Result {
	v := w.verifyClaim(m)
	tb := w.br[m.BridgeId]
	before := w.observe()
	res := w.env.L1.Deliver(m)
	w.run.Evaluations++
	w.logf("finalize bridge=%d out=%d seq=%d %s to=%s variant=%s [exists=%v root=%v proof=%v fin=%d paid=%v] -> %s %s", m.BridgeId, m.OutputIndex, m.Sequence, m.Amount, short(m.To), variant,
		v.outputExists, v.rootMatches, v.proofMatches, v.fin, v.paidBefore, res.Class, res.ErrString())
	expect := expectDelta{}
	if w.mons.C05 && v.outputExists && v.rootMatches && v.proofMatches && !v.paidBefore && v.boundary != "" {
		w.run.Hit("C05.boundary." + v.boundary)
		w.run.Distinct(fmt.Sprintf("C05/boundary/%s/%s", v.boundary, res.Class))
	}
	if res.Class == sim.OK {
		if w.mons.C03 || w.mons.C01 {
			w.run.Check("C03.accepted_claim_is_committed", v.outputExists && v.rootMatches && v.proofMatches, "c03.forged_claim_accepted", w.trace(),
				"finalization accepted although independent verification says exists=%v output-root-match=%v proof-match=%v (variant %s)", v.outputExists, v.rootMatches, v.proofMatches, variant)
		}
		if tb != nil && tb.exists {
			if st, err := w.env.L1.Q.OutputProposal(w.env.L1.Ctx, &ophosttypes.QueryOutputProposalRequest{BridgeId: m.BridgeId, OutputIndex: m.OutputIndex}); err == nil {
				if _, ok := tb.final[m.OutputIndex]; !ok {
					tb.final[m.OutputIndex] = outSnap{hex.EncodeToString(st.OutputProposal.OutputRoot), st.OutputProposal.L2BlockNumber, st.OutputProposal.L1BlockTime, st.OutputProposal.L1BlockNumber}
				}
			}
		}
		if w.mons.C05 {
			w.run.Check("C05.no_finalize_before_window", v.fin != surelyNot, "c05.finalized_too_early", w.trace(), "withdrawal finalized against output %d of bridge %d before its finalization period elapsed", m.OutputIndex, m.BridgeId)
			w.run.Distinct(fmt.Sprintf("C05/finalize/ok/fin=%d", v.fin))
		}
		if w.mons.C01 {
			// "deposits minus finalized withdrawals": a withdrawal is one withdrawal however often it is submitted — a second
			// payment for the same leaf takes other depositors' money out of the escrow
			w.run.Check("C01.withdrawal_leaves_escrow_once", !v.paidBefore, "c01.same_withdrawal_paid_again", w.trace(), "withdrawal %x of bridge %d (output %d) left the escrow a second time", v.leaf[:6], m.BridgeId, m.OutputIndex)
		}
		if w.mons.C02 {
			w.run.Check("C02.paid_at_most_once", !v.paidBefore, "c02.double_payment", w.trace(), "withdrawal %x on bridge %d paid a second time", v.leaf[:6], m.BridgeId)
			// "Claimed answers true exactly for withdrawals that have been paid": an accepted finalization moved the money
			if to, err := sdk.AccAddressFromBech32(m.To); err == nil && !to.Equals(refBridgeAddr(m.BridgeId)) {
				got := w.env.L1.BK.GetBalance(w.env.L1.Ctx, to, m.Amount.Denom).Amount.Sub(before.balances[to.String()].AmountOf(m.Amount.Denom))
				w.run.Check("C02.claimed_query_agrees", got.Equal(m.Amount.Amount), "c02.claimed_but_not_paid", w.trace(), "finalization of %s accepted (the withdrawal now counts as claimed) but the recipient received %s", m.Amount, got)
			}
		}
		if tb != nil {
			tb.paid[v.leaf]++
			d := m.Amount.Denom
			if tb.ledger[d] == nil {
				tb.ledger[d] = new(big.Int)
			}
			tb.ledger[d].Sub(tb.ledger[d], m.Amount.Amount.BigInt())
		}
		// a recipient that is some bridge's escrow address receives the money like a plain transfer from a third party
		if to, err := sdk.AccAddressFromBech32(m.To); err == nil {
			for id, ob := range w.br {
				if to.Equals(refBridgeAddr(id)) {
					if ob.ledger[m.Amount.Denom] == nil {
						ob.ledger[m.Amount.Denom] = new(big.Int)
					}
					ob.ledger[m.Amount.Denom].Add(ob.ledger[m.Amount.Denom], m.Amount.Amount.BigInt())
				}
			}
		}
		expect.add(refBridgeAddr(m.BridgeId).String(), m.Amount.Denom, new(big.Int).Neg(m.Amount.Amount.BigInt()))
		expect.add(m.To, m.Amount.Denom, m.Amount.Amount.BigInt())
		w.feat["withdraw_ok"]++
		if variant != "valid" {
			w.feat["perturbed_accepted"]++
		}
	} else {
		if variant != "valid" && !(v.outputExists && v.rootMatches && v.proofMatches) {
			w.feat["forged_rejected"]++
			if variant == "other_bridge_id" || variant == "other_output_index" {
				w.feat["cross_rejected"]++
			}
			if w.mons.C03 {
				w.run.Hit("C03.perturbed_claim_rejected")
			}
		}
		if v.paidBefore {
			w.feat["replay_rejected"]++
			if w.mons.C02 {
				w.run.Hit("C02.resubmission_rejected")
				w.run.Distinct(fmt.Sprintf("C02/resubmit/b%d/out%d/seq%d/%s", m.BridgeId, m.OutputIndex, m.Sequence, variant))
			}
		}
		if w.mons.C05 && v.outputExists && v.rootMatches && v.proofMatches && !v.paidBefore && v.fin == surelyNot {
			w.run.Hit("C05.no_finalize_before_window")
			w.run.Distinct("C05/finalize/refused_early")
		}
		// completeness on the plain valid claim (C05 c: at T >= T0+P the output must be treated as final)
		if variant == "valid" && v.outputExists && v.rootMatches && v.proofMatches && !v.paidBefore && v.fin == surelyFinal && tb != nil {
			funded := tb.ledger[m.Amount.Denom] != nil && tb.ledger[m.Amount.Denom].Cmp(m.Amount.Amount.BigInt()) >= 0
			if funded && w.mons.C05 {
				w.run.Check("C05.final_after_window", false, "c05.valid_claim_rejected_after_window", w.trace(), "valid funded claim against a final output rejected: %s", res.ErrString())
			}
		}
	}
	if res.Class == sim.OK && w.mons.C05 && v.fin == surelyFinal {
		w.run.Hit("C05.final_after_window")
	}
	after := w.observe()
	w.checkIsolation("finalize", m.BridgeId, before, after, expect, res.Class == sim.OK)
	if w.mons.C02 {
		w.checkClaimedQuery()
	}
	w.checkQuiescent()
	return res
}

// checkClaimedQuery: Claimed(bridge, leaf) == paid for known leaves, false for others / other bridges.
func (w *L1World) checkClaimedQuery() {
	l1 := w.env.L1
	for _, b := range w.br {
		n := len(b.all)
		for k := 0; k < 6 && n > 0; k++ {
			wd := b.all[w.rng.Intn(n)]
			leaf := wd.Leaf()
			res, err := l1.Q.Claimed(l1.Ctx, &ophosttypes.QueryClaimedRequest{BridgeId: wd.BridgeID, WithdrawalHash: leaf[:]})
			paid := w.br[wd.BridgeID].paid[leaf] > 0
			w.run.Check("C02.claimed_query_agrees", err == nil && res.Claimed == paid, "c02.claimed_query", w.trace(), "Claimed(%d,%x)=%v but paid=%v", wd.BridgeID, leaf[:6], res, paid)
			// same hash under another bridge id
			for oid, ob := range w.br {
				if oid != wd.BridgeID {
					r2, err := l1.Q.Claimed(l1.Ctx, &ophosttypes.QueryClaimedRequest{BridgeId: oid, WithdrawalHash: leaf[:]})
					w.run.Check("C02.claimed_query_other_bridge", err == nil && r2.Claimed == (ob.paid[leaf] > 0), "c02.claimed_query_cross", w.trace(), "Claimed(%d,%x)=%v for a leaf of bridge %d", oid, leaf[:6], r2, wd.BridgeID)
					break
				}
			}
		}
	}
	h := w.rng.Bytes(32)
	r, err := l1.Q.Claimed(l1.Ctx, &ophosttypes.QueryClaimedRequest{BridgeId: w.pickID(), WithdrawalHash: h})
	w.run.Check("C02.claimed_query_random_false", err == nil && !r.Claimed, "c02.claimed_query_random", w.trace(), "Claimed(random hash) = %v", r)
}

func (w *L1World) opRoleUpdate() {
	b := w.pickExisting()
	if b == nil {
		return
	}
	roles := w.env.Bridges[b.id]
	l1 := w.env.L1
	signerOpts := []string{l1.Gov, roles.Proposer.String(), roles.Challenger.String(), mon.Pick(w.rng, w.strangers).String()}
	signer := mon.Pick(w.rng, signerOpts)
	before := w.observe()
	var res sim.Result
	kind := ""
	switch w.rng.Intn(5) {
	case 0:
		np := sim.NewAccount(fmt.Sprintf("proposer%d.%d", b.id, w.rng.Intn(1000)))
		res = l1.Deliver(ophosttypes.NewMsgUpdateProposer(signer, b.id, np.String()))
		kind = "update_proposer"
		if res.Class == sim.OK {
			b.pastP = append(b.pastP, roles.Proposer)
			roles.Proposer = np
		}
	case 1:
		nc := sim.NewAccount(fmt.Sprintf("challenger%d.%d", b.id, w.rng.Intn(1000)))
		res = l1.Deliver(ophosttypes.NewMsgUpdateChallenger(signer, b.id, nc.String()))
		kind = "update_challenger"
		if res.Class == sim.OK {
			b.pastC = append(b.pastC, roles.Challenger)
			roles.Challenger = nc
		}
	case 2:
		bi := ophosttypes.BatchInfo{Submitter: w.anyUser().String(), ChainType: ophosttypes.BatchInfo_CHAIN_TYPE_CELESTIA}
		switch w.rng.Intn(4) {
		case 0:
			bi.ChainType = ophosttypes.BatchInfo_CHAIN_TYPE_INITIA
		case 1:
			// the submitter is whatever string the data-availability layer uses for it: nothing says it is an L1 address
			bi = ophosttypes.BatchInfo{Submitter: fmt.Sprintf("batch-submitter-%d", w.rng.Intn(5)), ChainType: ophosttypes.BatchInfo_CHAIN_TYPE_INITIA}
		case 2:
			bi.Submitter = "celestia1" + strings.Repeat("q", 38)
		}
		if cur, err := l1.K.GetBridgeConfig(l1.Ctx, b.id); err == nil && w.rng.Chance(40) {
			bi = cur.BatchInfo // the current batch info submitted once more (it still opens a new entry of the history)
		}
		res = l1.Deliver(ophosttypes.NewMsgUpdateBatchInfo(signer, b.id, bi))
		kind = "update_batch_info"
	case 3:
		res = l1.Deliver(ophosttypes.NewMsgUpdateMetadata(signer, b.id, w.rng.Bytes(w.rng.Intn(40))))
		kind = "update_metadata"
	case 4:
		res = l1.Deliver(ophosttypes.NewMsgUpdateOracleConfig(signer, b.id, w.rng.Bool()))
		kind = "update_oracle_config"
	}
	w.run.Evaluations++
	w.logf("%s bridge=%d -> %s %s", kind, b.id, res.Class, res.ErrString())
	after := w.observe()
	w.checkIsolation(kind, b.id, before, after, expectDelta{}, res.Class == sim.OK)
	w.checkQuiescent()
}

func (w *L1World) opRecordBatch() {
	id := w.pickID()
	before := w.observe()
	res := w.env.L1.Deliver(ophosttypes.NewMsgRecordBatch(w.anyUser().String(), id, w.rng.Bytes(1+w.rng.Intn(32))))
	w.run.Evaluations++
	w.logf("record_batch bridge=%d -> %s", id, res.Class)
	after := w.observe()
	w.checkIsolation("record_batch", id, before, after, expectDelta{}, res.Class == sim.OK)
}

func (w *L1World) opUpdateParams() {
	l1 := w.env.L1
	var fee sdk.Coins
	if w.rng.Bool() {
		fee = sdk.NewCoins(sdk.NewCoin("uinit", math.NewInt(int64(1+w.rng.Intn(500)))))
	}
	signer := l1.Gov
	if w.rng.Chance(30) {
		signer = w.anyUser().String()
	}
	before := w.observe()
	p := ophosttypes.Params{RegistrationFee: fee}
	res := l1.Deliver(ophosttypes.NewMsgUpdateParams(signer, &p))
	w.run.Evaluations++
	w.logf("update_params fee=%s by gov=%v -> %s", fee, signer == l1.Gov, res.Class)
	if res.Class == sim.OK {
		w.fee = fee
	}
	after := w.observe()
	w.checkIsolation("update_params", 0, before, after, expectDelta{}, res.Class == sim.OK)
}

func (w *L1World) opAdvance() {
	var dt time.Duration
	b := w.pickExisting()
	choices := append([]time.Duration{0, 1, time.Second - 1, time.Second, 3 * time.Second}, w.cfg.TimeSteps...)
	if b != nil && b.period > 0 {
		p := b.period
		choices = append(choices, p-time.Second, p-1, p, p+1, p+time.Second, p/2)
		// land exactly on a boundary of the newest output
		if len(b.outputs) > 0 {
			last := b.outputs[len(b.outputs)-1]
			target := last.ProposedAt.Add(p)
			for _, off := range []time.Duration{-time.Second, -1, 0, 1} {
				if d := target.Add(off).Sub(w.env.L1.Time()); d >= 0 {
					choices = append(choices, d)
				}
			}
		}
	}
	dt = mon.Pick(w.rng, choices)
	if dt < 0 {
		dt = 0
	}
	if w.env.L1.Time().Year() > 4000 && dt > 24*time.Hour {
		dt = time.Hour // stay inside the timestamp range protobuf can encode
	}
	w.env.L1.NextBlock(dt)
	w.logf("advance +%s", dt)
	w.checkQuiescent()
}

// opDiscarded executes a short script on a branch that is then thrown away (a multi-message transaction whose last
// message fails, a simulation, CheckTx). Nothing of it may influence the committed history afterwards.
func (w *L1World) opDiscarded() {
	br := w.env.L1.Branch()
	user := w.anyUser()
	switch w.rng.Intn(3) {
	case 0:
		// a bridge is created (it would get the next id) with a short period, used, and never committed
		nid, _ := w.env.L1.K.GetNextBridgeId(w.env.L1.Ctx)
		p := sim.NewAccount("discarded-proposer")
		r1 := br.Deliver(ophosttypes.NewMsgCreateBridge(user.String(), bridgeConfig(p.String(), p.String(), time.Second, nil)))
		r2 := br.Deliver(ophosttypes.NewMsgInitiateTokenDeposit(user.String(), nid, "l2x", sdk.NewCoin("uinit", math.NewInt(5)), nil))
		r3 := br.Deliver(ophosttypes.NewMsgProposeOutput(p.String(), nid, 1, 10, bytes.Repeat([]byte{0xdd}, 32)))
		br.NextBlock(2 * time.Second)
		r4 := br.Deliver(ophosttypes.NewMsgDeleteOutput(p.String(), nid, 1))
		w.logf("on a discarded branch: create bridge %d (1s period) %s, deposit %s, propose %s, delete %s", nid, r1.Class, r2.Class, r3.Class, r4.Class)
		if r1.Class == sim.OK && r2.Class == sim.OK {
			w.feat["discarded_bridge_used"]++
		}
		// the id is still unassigned in the committed state
		w.opDepositTo(nid)
	default:
		// on an existing bridge: (delete the last output,) propose another root at the next index and try to claim against it
		b := w.pickExisting()
		if b == nil {
			return
		}
		roles := w.env.Bridges[b.id]
		next, _ := br.K.GetNextOutputIndex(br.Ctx, b.id)
		if next > 1 && w.rng.Bool() {
			br.Deliver(ophosttypes.NewMsgDeleteOutput(roles.Challenger.String(), b.id, next-1))
			next, _ = br.K.GetNextOutputIndex(br.Ctx, b.id)
		}
		ws := []Withdrawal{{b.id, 900000 + uint64(w.rng.Intn(1000)), "l2ghost", user.String(), "uinit", 77}}
		o := BuildOutput(b.id, ws, 0, w.rng)
		o.Index = next
		r1 := br.Deliver(ophosttypes.NewMsgProposeOutput(roles.Proposer.String(), b.id, next, roles.LastL2+100, o.OutputRoot[:]))
		r2 := br.Deliver(o.Claim(0, user.String()))
		w.logf("on a discarded branch: bridge %d propose ghost output at %d -> %s, claim against it -> %s", b.id, next, r1.Class, r2.Class)
		if r1.Class == sim.OK {
			// remember the ghost: later claims against it must be refused unless that very root is committed for real
			b.dead = append(b.dead, o)
		}
	}
	w.checkQuiescent()
}

var defaultWeights = map[string]int{"create": 2, "deposit": 22, "send": 5, "propose": 14, "delete": 6, "finalize": 30, "role": 6, "batch": 2, "params": 2, "advance": 16}

// Run executes cfg.Steps random operations.
func (w *L1World) Run() {
	weights := w.cfg.Weights
	if weights == nil {
		weights = defaultWeights
	}
	var names []string
	total := 0
	for k := range weights {
		names = append(names, k)
	}
	sort.Strings(names)
	for _, k := range names {
		total += weights[k]
	}
	for s := 0; s < w.cfg.Steps && !w.run.TooMany(); s++ {
		x := w.rng.Intn(total)
		op := ""
		for _, k := range names {
			if x < weights[k] {
				op = k
				break
			}
			x -= weights[k]
		}
		switch op {
		case "create":
			periods := []time.Duration{time.Second, 10 * time.Second, time.Hour, 1500 * time.Millisecond, 0, -time.Second, -time.Hour}
			w.opCreateBridge(mon.Pick(w.rng, periods), false)
		case "deposit":
			w.opDeposit()
		case "send":
			w.opThirdPartySend()
		case "propose":
			w.opPropose()
		case "delete":
			w.opDelete()
		case "finalize":
			w.opFinalize()
		case "role":
			w.opRoleUpdate()
		case "batch":
			w.opRecordBatch()
		case "params":
			w.opUpdateParams()
		case "advance":
			w.opAdvance()
		}
		if w.rng.Chance(6) {
			w.opDiscarded()
		}
		if w.rng.Chance(2) {
			// the chain is restarted from its own exported genesis; the history goes on
			ok := migrateL1(w.env)
			w.logf("chain exported and restarted from its genesis -> imported=%v", ok)
			w.checkQuiescent()
		}
		w.run.State(sim.Digest(w.env.L1.Dump(ophosttypes.StoreKey)))
	}
}

func short(s string) string {
	if len(s) > 12 {
		return s[:12]
	}
	return s
}

// 32-byte accounts (the length of module-derived addresses) that are nobody's escrow: paid like a 20-byte account.
var (
	h32a         = ref.Sha3_256([]byte("verif/32-byte-recipient/a"))
	h32b         = ref.Sha3_256([]byte("verif/32-byte-recipient/b"))
	recipient32a = sdk.AccAddress(h32a[:])
	recipient32b = sdk.AccAddress(append(make([]byte, 12), h32b[:20]...)) // twelve zero bytes in front of 20 others
)
