package props

import (
	"fmt"
	cmtcrypto "github.com/cometbft/cometbft/proto/tendermint/crypto"
	"math/big"
	"sort"

	cmtproto "github.com/cometbft/cometbft/proto/tendermint/types"

	opchildtypes "github.com/initia-labs/OPinit/x/opchild/types"

	"verifharness/mon"
	"verifharness/sim"
)

func init() { register("C15", "exploration", checkC15) }

var c15PowerVectors = map[string][]int64{
	"34/33/33":   {34, 33, 33},
	"50/25/25":   {50, 25, 25},
	"1x7":        {1, 1, 1, 1, 1, 1, 1},
	"whale":      {70, 10, 10, 10},
	"single":     {5},
	"2/1":        {2, 1},
	"67/33":      {67, 33},
	"66/34":      {66, 34},
	"10/10/10/1": {10, 10, 10, 1},
}

var c15Pairs = []string{"BTC/USD", "ETH/USD", "ATOM/USD"}

// qualifying computes, per pair, the distinct host validators that supplied a decodable price in a
// commit-flagged entry carrying their own valid signature. (The harness built the commit and knows every key.)
func qualifying(o *OracleEnv, specs []voteSpec) map[string]map[int]bool {
	q := map[string]map[int]bool{}
	for _, s := range specs {
		if s.Val < 0 || s.Flag != cmtproto.BlockIDFlagCommit || s.Sig != sigValid || s.NoExtension {
			continue
		}
		for pair := range s.Prices {
			if q[pair] == nil {
				q[pair] = map[int]bool{}
			}
			q[pair][s.Val] = true
		}
	}
	return q
}

// naivePower: what an implementation would count if forged / duplicated / unknown / non-commit entries contributed.
func naivePower(o *OracleEnv, specs []voteSpec, pair string) int64 {
	var sum int64
	for _, s := range specs {
		if s.NoExtension {
			continue
		}
		if _, ok := s.Prices[pair]; !ok {
			continue
		}
		if s.Val >= 0 {
			sum += o.Host[s.Val].Power
		} else {
			sum += s.ClaimedPower
		}
	}
	return sum
}

func totalPower(o *OracleEnv) int64 {
	var t int64
	for _, h := range o.Host {
		t += h.Power
	}
	return t
}

func powerOf(o *OracleEnv, set map[int]bool) int64 {
	var t int64
	for i := range set {
		t += o.Host[i].Power
	}
	return t
}

func pricesAt(base int64, ts int64) map[string]*big.Int {
	return map[string]*big.Int{"BTC/USD": big.NewInt(base), "ETH/USD": big.NewInt(base / 10), "ATOM/USD": big.NewInt(base / 1000), tsPair: big.NewInt(ts)}
}

type c15Case struct {
	kind   string
	specs  []voteSpec
	height uint64
	round  int32
	sender sim.Account
	raw    []byte // if set, sent instead of the encoded commit
}

// minoritySubset returns validator indexes whose combined power is the largest value strictly below 2/3 (greedy).
func subsetBelow(o *OracleEnv, rng *mon.Rand) (below []int, atOrAbove []int) {
	idx := make([]int, len(o.Host))
	for i := range idx {
		idx[i] = i
	}
	for i := len(idx) - 1; i > 0; i-- {
		j := rng.Intn(i + 1)
		idx[i], idx[j] = idx[j], idx[i]
	}
	total := totalPower(o)
	var sum int64
	for _, i := range idx {
		if (sum+o.Host[i].Power)*3 < total*2 {
			below = append(below, i)
			sum += o.Host[i].Power
		}
	}
	sum = 0
	for _, i := range idx {
		atOrAbove = append(atOrAbove, i)
		sum += o.Host[i].Power
		if sum*3 >= total*2 {
			break
		}
	}
	return
}

func commitVotes(idx []int, prices map[string]*big.Int) []voteSpec {
	var out []voteSpec
	for _, i := range idx {
		out = append(out, voteSpec{Val: i, Flag: cmtproto.BlockIDFlagCommit, Prices: prices, Sig: sigValid})
	}
	return out
}

func (c *c15) genCase(o *OracleEnv, rng *mon.Rand, ts int64) c15Case {
	prices := pricesAt(1_000_000+int64(rng.Intn(1000000)), ts)
	below, above := subsetBelow(o, rng)
	cs := c15Case{height: uint64(o.HostHeight) + 1 + uint64(rng.Intn(5)), round: int32(rng.Intn(3)), sender: o.Executors[rng.Intn(2)]}
	rest := func(used []int) []int {
		m := map[int]bool{}
		for _, u := range used {
			m[u] = true
		}
		var r []int
		for i := range o.Host {
			if !m[i] {
				r = append(r, i)
			}
		}
		return r
	}
	kinds := []string{"honest-all", "subset-at-quorum", "subset-below", "duplicated-vote", "two-votes-one-validator", "forged-signature", "signature-by-other", "wrong-chain-id", "wrong-height", "wrong-round",
		"unknown-validators", "non-commit-flags-with-extension", "non-commit-flags-no-extension", "missing-pairs", "undecodable-prices", "empty-extensions", "garbage-bytes", "height-below-host-set", "not-an-executor", "missing-signature", "oversized-price", "forged-override", "forged-after-quorum"}
	cs.kind = mon.Pick(rng, kinds)
	switch cs.kind {
	case "honest-all":
		cs.specs = o.HonestSpecs(prices)
	case "subset-at-quorum":
		cs.specs = commitVotes(above, prices)
	case "subset-below":
		cs.specs = commitVotes(below, prices)
	case "duplicated-vote":
		cs.specs = commitVotes(below, prices)
		if len(below) > 0 {
			v := below[rng.Intn(len(below))]
			for k := 0; k < 1+rng.Intn(4); k++ {
				cs.specs = append(cs.specs, voteSpec{Val: v, Flag: cmtproto.BlockIDFlagCommit, Prices: prices, Sig: sigValid})
			}
		}
	case "two-votes-one-validator":
		cs.specs = commitVotes(below, prices)
		if len(below) > 0 {
			v := below[0]
			other := pricesAt(2_000_000, ts+1)
			cs.specs = append(cs.specs, voteSpec{Val: v, Flag: cmtproto.BlockIDFlagCommit, Prices: other, Sig: sigValid}, voteSpec{Val: v, Flag: cmtproto.BlockIDFlagCommit, Prices: prices, Sig: sigValid})
		}
	case "forged-signature", "signature-by-other", "wrong-chain-id", "wrong-height", "wrong-round", "missing-signature":
		k := map[string]sigKind{"forged-signature": sigForged, "signature-by-other": sigByOther, "wrong-chain-id": sigWrongChain, "wrong-height": sigWrongHeight, "wrong-round": sigWrongRound, "missing-signature": sigMissing}[cs.kind]
		cs.specs = commitVotes(below, prices)
		for _, i := range rest(below) {
			s := voteSpec{Val: i, Flag: cmtproto.BlockIDFlagCommit, Prices: prices, Sig: k}
			if k == sigByOther {
				s.OtherSigner = (i + 1) % len(o.Host)
				if len(below) > 0 {
					s.OtherSigner = below[0]
				}
				if s.OtherSigner == i {
					s.Sig = sigForged
				}
			}
			cs.specs = append(cs.specs, s)
		}
	case "unknown-validators":
		cs.specs = commitVotes(below, prices)
		for k := 0; k < 1+rng.Intn(3); k++ {
			priv, pub := NewConsKey(fmt.Sprintf("unknown/%d/%d", rng.Intn(1000), k))
			u := hostVal{priv, pub, 1000}
			cs.specs = append(cs.specs, voteSpec{Val: -1, Unknown: &u, Flag: cmtproto.BlockIDFlagCommit, Prices: prices, Sig: sigValid, ClaimedPower: 1_000_000})
		}
	case "non-commit-flags-with-extension":
		cs.specs = commitVotes(below, prices)
		for _, i := range rest(below) {
			cs.specs = append(cs.specs, voteSpec{Val: i, Flag: mon.Pick(rng, []cmtproto.BlockIDFlag{cmtproto.BlockIDFlagAbsent, cmtproto.BlockIDFlagNil, cmtproto.BlockIDFlagUnknown}), Prices: prices, Sig: sigValid})
		}
	case "non-commit-flags-no-extension":
		cs.specs = commitVotes(above, prices)
		for _, i := range rest(above) {
			cs.specs = append(cs.specs, voteSpec{Val: i, Flag: mon.Pick(rng, []cmtproto.BlockIDFlag{cmtproto.BlockIDFlagAbsent, cmtproto.BlockIDFlagNil}), NoExtension: true, Sig: sigMissing})
		}
	case "missing-pairs":
		// everyone signs, but only a minority reports BTC/USD
		for i := range o.Host {
			p := map[string]*big.Int{}
			for k, v := range prices {
				p[k] = v
			}
			inBelow := false
			for _, b := range below {
				if b == i {
					inBelow = true
				}
			}
			if !inBelow {
				delete(p, "BTC/USD")
			}
			cs.specs = append(cs.specs, voteSpec{Val: i, Flag: cmtproto.BlockIDFlagCommit, Prices: p, Sig: sigValid})
		}
	case "undecodable-prices", "oversized-price":
		for i := range o.Host {
			p := map[string]*big.Int{}
			for k, v := range prices {
				p[k] = v
			}
			s := voteSpec{Val: i, Flag: cmtproto.BlockIDFlagCommit, Prices: p, Sig: sigValid}
			inBelow := false
			for _, b := range below {
				if b == i {
					inBelow = true
				}
			}
			if !inBelow {
				delete(p, "ETH/USD")
				g := []byte{0xfe, 0x01, 0x02} // big.Int gob version 127: rejected by GobDecode (empty bytes would decode as 0)
				if cs.kind == "oversized-price" {
					g = rng.Bytes(40)
				}
				s.Garbage = map[string][]byte{"ETH/USD": g}
			}
			cs.specs = append(cs.specs, s)
		}
	case "empty-extensions":
		cs.specs = commitVotes(below, prices)
		for _, i := range rest(below) {
			cs.specs = append(cs.specs, voteSpec{Val: i, Flag: cmtproto.BlockIDFlagCommit, Prices: map[string]*big.Int{}, Sig: sigValid})
		}
	case "forged-after-quorum":
		// a validly signed quorum comes first, but it does not quote BTC/USD; the remaining validators' entries carry
		// forged signatures and do quote it
		noBTC := map[string]*big.Int{}
		for k, v := range prices {
			if k != "BTC/USD" {
				noBTC[k] = v
			}
		}
		cs.specs = commitVotes(above, noBTC)
		for _, i := range rest(above) {
			// the forged entries' own power fields say the real power, 0 or -1 (a field the submitter controls)
			cs.specs = append(cs.specs, voteSpec{Val: i, Flag: cmtproto.BlockIDFlagCommit, Prices: prices, Sig: mon.Pick(rng, []sigKind{sigForged, sigWrongChain, sigMissing}),
				ZeroPower: rng.Chance(33), ClaimedPower: mon.Pick(rng, []int64{0, 0, -1})})
		}
		// one more forged entry for a validator that already signed, quoting BTC/USD
		if len(above) > 0 {
			cs.specs = append(cs.specs, voteSpec{Val: above[0], Flag: cmtproto.BlockIDFlagCommit, Prices: prices, Sig: sigForged, ZeroPower: rng.Bool()})
		}
	case "forged-override":
		// a genuine signed quorum, followed by unsigned entries for the same validators (non-commit flags) carrying
		// other prices: if those entries reach the aggregator they replace the signed ones
		cs.specs = commitVotes(above, prices)
		forged := pricesAt(7, ts+5)
		for _, i := range above {
			cs.specs = append(cs.specs, voteSpec{Val: i, Flag: mon.Pick(rng, []cmtproto.BlockIDFlag{cmtproto.BlockIDFlagUnknown, cmtproto.BlockIDFlagAbsent, cmtproto.BlockIDFlagNil, cmtproto.BlockIDFlagCommit}), Prices: forged, Sig: sigMissing, ZeroPower: rng.Bool()})
		}
	case "garbage-bytes":
		cs.raw = rng.Bytes(1 + rng.Intn(200))
	case "height-below-host-set":
		cs.specs = o.HonestSpecs(prices)
		cs.height = uint64(o.HostHeight) - uint64(1+rng.Intn(3))
	case "not-an-executor":
		cs.specs = o.HonestSpecs(prices)
		cs.sender = mon.Pick(rng, []sim.Account{o.Users[0], o.Admin, sim.NewAccount("stranger0")})
	}
	return cs
}

type c15 struct {
	run *mon.Run
}

func (c *c15) deliver(o *OracleEnv, cs c15Case, vecName string, oracleEnabled bool, log *[]string) {
	run := c.run
	data := cs.raw
	if data == nil {
		data = o.BuildCommit(cs.height, cs.round, cs.specs)
	}
	before := o.Prices()
	hostH, _ := o.HostSetState()
	isExec := false
	p, _ := o.L2.K.GetParams(o.L2.Ctx)
	for _, e := range p.BridgeExecutors {
		if e == cs.sender.String() {
			isExec = true
		}
	}
	res := o.L2.Deliver(opchildtypes.NewMsgUpdateOracle(cs.sender.String(), cs.height, data))
	run.Evaluations++
	after := o.Prices()
	q := qualifying(o, cs.specs)
	total := totalPower(o)
	var changed []string
	for _, pair := range o.Pairs {
		if before[pair] != after[pair] {
			changed = append(changed, pair)
		}
	}
	sort.Strings(changed)
	*log = append(*log, fmt.Sprintf("update kind=%s vec=%s height=%d(host %d) sender=%s enabled=%v entries=%d -> %s %s; changed=%v", cs.kind, vecName, cs.height, hostH, cs.sender.Name, oracleEnabled, len(cs.specs), res.Class, res.ErrString(), changed))
	tr := tail(*log, 25)
	outcome := "rejected"
	if res.Class == sim.OK {
		outcome = "accepted"
	}
	would := false
	for _, pair := range o.Pairs {
		if naivePower(o, cs.specs, pair)*3 >= total*2 && powerOf(o, q[pair])*3 < total*2 {
			would = true
		}
	}
	if would {
		run.Hit("C15.attack_would_reach_quorum_if_counted." + cs.kind)
	}
	run.Distinct(fmt.Sprintf("%s/%s/%s/would=%v", cs.kind, vecName, outcome, would))
	if len(changed) == 0 {
		if res.Class != sim.OK && cs.kind != "honest-all" && cs.kind != "subset-at-quorum" {
			run.Hit("C15.insufficient_update_changes_nothing")
		}
		return
	}
	run.Check("C15.only_successful_update_changes_prices", res.Class == sim.OK, "c15.change_without_success", tr, "prices changed although the message failed")
	run.Check("C15.sender_is_executor_and_oracle_enabled", isExec && oracleEnabled, "c15.unauthorized_update", tr, "prices changed by sender executor=%v with oracle enabled=%v", isExec, oracleEnabled)
	run.Check("C15.height_not_older_than_host_set", int64(cs.height) >= hostH, "c15.old_height", tr, "prices changed by an update at height %d, recorded host set is of height %d", cs.height, hostH)
	signedPrices := map[string]map[string]bool{}
	for _, sp := range cs.specs {
		if sp.Val < 0 || sp.Flag != cmtproto.BlockIDFlagCommit || sp.Sig != sigValid || sp.NoExtension {
			continue
		}
		for pair, v := range sp.Prices {
			if signedPrices[pair] == nil {
				signedPrices[pair] = map[string]bool{}
			}
			signedPrices[pair][v.String()] = true
		}
	}
	for _, pair := range changed {
		if pair != tsPair {
			run.Check("C15.price_comes_from_a_signed_vote", signedPrices[pair][after[pair].Price], "c15.unsigned_price."+cs.kind, tr, "%s became %s, a value no validly signed commit vote supplied (attack kind %s)", pair, after[pair].Price, cs.kind)
		}
		if signedPrices[tsPair] != nil || true {
			run.Check("C15.timestamp_comes_from_a_signed_vote", signedPrices[tsPair][fmt.Sprint(after[pair].TsNs)], "c15.unsigned_timestamp."+cs.kind, tr, "%s timestamp became %d, a value no validly signed commit vote supplied", pair, after[pair].TsNs)
		}
		pw := powerOf(o, q[pair])
		run.Check("C15.changed_pair_has_two_thirds_quorum", pw*3 >= total*2, "c15.quorum."+cs.kind, tr, "%s changed with qualifying power %d of %d (< 2/3); attack kind %s", pair, pw, total, cs.kind)
		if before[pair].Set {
			run.Check("C15.timestamp_strictly_increases", after[pair].TsNs > before[pair].TsNs, "c15.timestamp_not_increasing", tr, "%s timestamp %d -> %d", pair, before[pair].TsNs, after[pair].TsNs)
		}
	}
	run.Hit("C15.accepted_update_observed")
}

func checkC15(run *mon.Run, rng *mon.Rand, thorough bool) {
	run.Rule = "adversarial extended-commit generator against the real UpdateOracle path (connect codecs, ValidateVoteExtensions, vote-weighted median, oracle keeper): 21 attack kinds (honest, subsets just below / at 2/3, duplicated votes, two votes by one validator, forged / foreign / wrong chain-height-round / missing signatures, unknown validators with huge claimed power, non-commit flags with and without extension, missing pairs, undecodable and oversized prices, empty extensions, garbage bytes, old height, non-executor) x 9 power vectors around the 2/3 line, in sequences with equal / older / newer timestamps, oracle flag toggled, and host-set refreshes with lower / equal / higher heights and right / wrong / empty client ids. The qualifying power per changed pair is computed from the harness's own knowledge of every key. Distinct non-trivial = (attack kind, power vector, outcome, would-reach-quorum-if-counted) Plus scripted scenarios: late relay between a full and a partial update; genuine signatures harvested from an accepted commit re-attached to other extensions; attempts to re-point the configured L1 client."
	run.Assumptions = []string{"necessary-condition direction only (the code's threshold 0.667 is stricter than 2/3)", "connect's codecs and ed25519 are trusted to build the adversarial commits"}
	run.Declare("C15.price_comes_from_a_signed_vote", 10)
	for _, c := range []string{"C15.changed_pair_has_two_thirds_quorum", "C15.timestamp_strictly_increases", "C15.sender_is_executor_and_oracle_enabled", "C15.height_not_older_than_host_set", "C15.accepted_update_observed",
		"C15.insufficient_update_changes_nothing", "C15.host_set_only_replaced_by_higher_height_from_client"} {
		run.Declare(c, 10)
	}
	for _, k := range []string{"duplicated-vote", "two-votes-one-validator", "forged-signature", "signature-by-other", "wrong-chain-id", "wrong-height", "wrong-round", "unknown-validators", "non-commit-flags-with-extension", "missing-signature"} {
		run.Declare("C15.attack_would_reach_quorum_if_counted."+k, 1)
	}
	c := &c15{run: run}
	names := make([]string, 0, len(c15PowerVectors))
	for n := range c15PowerVectors {
		names = append(names, n)
	}
	sort.Strings(names)
	for _, vn := range names {
		c.scriptedLateRelay(vn, c15PowerVectors[vn])
		c.scriptedHarvestedSignatures(vn, c15PowerVectors[vn])
		if vn == names[0] {
			c.scriptedUnconfiguredClient()
		}
	}
	rounds := pick(thorough, 8, 160)
	perRound := pick(thorough, 60, 150)
	for r := 0; r < rounds && !run.TooMany(); r++ {
		for _, vn := range names {
			o := newOracleEnv(c15PowerVectors[vn], c15Pairs)
			if rng.Bool() {
				o.EnableShadow(rng.U64())
			}
			var log []string
			ts := int64(1_700_000_000_000_000_000)
			enabled := true
			rr := rng.Split()
			for i := 0; i < perRound && !run.TooMany(); i++ {
				switch x := rr.Intn(100); {
				case x < 80:
					// timestamp: newer / equal / older than the last used one
					switch rr.Intn(5) {
					case 0:
					case 1:
						ts -= int64(1 + rr.Intn(1000))
					default:
						ts += int64(1 + rr.Intn(1_000_000))
					}
					c.deliver(o, c.genCase(o, rr, ts), vn, enabled, &log)
				case x < 86:
					// toggle the oracle flag through SetBridgeInfo
					enabled = !enabled
					res := o.L2.Deliver(opchildtypes.NewMsgSetBridgeInfo(o.Executors[0].String(), o.BridgeInfo(o.ClientID, enabled)))
					log = append(log, fmt.Sprintf("set_bridge_info oracle_enabled=%v -> %s", enabled, res.Class))
					if res.Class != sim.OK {
						enabled = !enabled
					}
					if o.ClientID != "" && rr.Chance(50) {
						// the executor tries to move the chain to another L1 light client, directly and in two steps
						for _, id := range mon.Pick(rr, [][]string{{"07-tendermint-9"}, {"", "07-tendermint-9"}, {""}}) {
							r2 := o.L2.Deliver(opchildtypes.NewMsgSetBridgeInfo(o.Executors[0].String(), o.BridgeInfo(id, enabled)))
							log = append(log, fmt.Sprintf("set_bridge_info l1_client_id=%q -> %s", id, r2.Class))
							run.Evaluations++
							run.Check("C15.host_set_only_replaced_by_higher_height_from_client", r2.Class != sim.OK, "c15.client_binding_repointed", tail(log, 15), "the configured L1 light client %q was replaced by %q: host validator sets would now be taken from another client", o.ClientID, id)
						}
					}
				case x < 93:
					c.hostRefresh(o, rr, &log)
				default:
					// a host-set refresh and an update executed on a branch that is then discarded (failed tx / simulation):
					// nothing of it may influence later updates
					br := o.Branch()
					tiny := make([]int64, len(o.Host))
					for i := range tiny {
						tiny[i] = 1
					}
					br.Host = newHostVals(tiny, 9000+i)
					_ = br.L2.K.UpdateHostValidatorSet(br.L2.Ctx, br.ClientID, br.HostHeight+1, cmtValSet(br.Host[:1+len(tiny)/3]))
					br.Host = br.Host[:1+len(tiny)/3]
					br.HostHeight++
					sc := &c15{run: scratchRun()}
					var slog []string
					sc.deliver(br, c15Case{kind: "honest-all", specs: br.HonestSpecs(pricesAt(5, ts+1)), height: uint64(br.HostHeight) + 1, sender: br.Executors[0]}, vn, enabled, &slog)
					log = append(log, "speculative host-set refresh + update on a discarded branch")
				}
			}
			if r == 0 && vn == names[0] {
				run.Sample(map[string]interface{}{"power_vector": vn, "first_steps": log[:minInt(len(log), 20)]})
			}
		}
	}
	run.Extra["power_vectors"] = names
}

// scriptedUnconfiguredClient: while the chain has no configured L1 light client (no bridge info yet, or bridge info
// without a client id) no client's validator set may be recorded: "the configured L1 light client" is then nobody.
func (c *c15) scriptedUnconfiguredClient() {
	run := c.run
	for _, start := range []string{"no bridge info", "bridge info without a client id"} {
		e := newL2Env(L2EnvOpts{NoBridgeInfo: true})
		l2 := e.L2
		var log []string
		if start == "bridge info without a client id" {
			r := l2.Deliver(opchildtypes.NewMsgSetBridgeInfo(e.Executors[0].String(), e.BridgeInfo("", true)))
			log = append(log, fmt.Sprintf("set_bridge_info without client id -> %s", r.Class))
		}
		recorded := func() (int64, int) {
			h, err := l2.K.HostValidatorStore.GetLastHeight(l2.Ctx)
			if err != nil {
				h = 0
			}
			vals, _ := l2.K.HostValidatorStore.GetAllValidators(l2.Ctx)
			return h, len(vals)
		}
		foreign := newHostVals([]int64{5, 5, 5}, 4242)
		for _, client := range []string{"07-tendermint-9", "", "07-tendermint-0"} {
			err := l2.K.UpdateHostValidatorSet(l2.Ctx, client, 1_000_000, cmtValSet(foreign))
			h, n := recorded()
			run.Evaluations++
			log = append(log, fmt.Sprintf("%s: validator set of client %q at height 1000000 offered -> err=%v; recorded height %d, %d validators", start, client, err, h, n))
			run.Check("C15.host_set_only_replaced_by_higher_height_from_client", n == 0 && h == 0, "c15.host_set_recorded_without_configured_client", log, "%s: the validator set of client %q was recorded although no L1 light client is configured", start, client)
		}
		// the client gets configured; its sets are recorded from then on, even at heights below what strangers offered
		r := l2.Deliver(opchildtypes.NewMsgSetBridgeInfo(e.Executors[0].String(), e.BridgeInfo("07-tendermint-0", true)))
		log = append(log, fmt.Sprintf("set_bridge_info client 07-tendermint-0 -> %s %s", r.Class, r.ErrString()))
		real := newHostVals([]int64{7, 7, 7}, 77)
		err := l2.K.UpdateHostValidatorSet(l2.Ctx, "07-tendermint-0", 50, cmtValSet(real))
		h, n := recorded()
		log = append(log, fmt.Sprintf("validator set of the configured client at height 50 -> err=%v; recorded height %d, %d validators", err, h, n))
		if r.Class == sim.OK {
			run.Check("C15.host_set_only_replaced_by_higher_height_from_client", err == nil && h == 50 && n == 3, "c15.configured_client_set_not_recorded", log, "the configured client's validator set (height 50) was not recorded: height %d, %d validators", h, n)
		}
		run.Distinct("scripted-unconfigured-client/" + start)
	}
}

// scriptedHarvestedSignatures: (1) a genuine, complete commit for (height, round) is accepted; (2) the executor submits
// another commit for the same height and round that carries the very same signatures, now attached to extensions with
// other prices and a newer timestamp. A signature is valid only over the extension it was given for.
func (c *c15) scriptedHarvestedSignatures(vn string, powers []int64) {
	for _, round := range []int32{0, 2} {
		o := newOracleEnv(powers, c15Pairs)
		var log []string
		t1, t2 := int64(1_700_000_000_000_001_000), int64(1_700_000_000_000_009_000)
		h := uint64(o.HostHeight) + 1
		genuine := pricesAt(1_000_000, t1)
		c.deliver(o, c15Case{kind: "honest-all", specs: o.HonestSpecs(genuine), height: h, round: round, sender: o.Executors[0]}, vn, true, &log)
		var specs []voteSpec
		for i := range o.Host {
			specs = append(specs, voteSpec{Val: i, Flag: cmtproto.BlockIDFlagCommit, Prices: pricesAt(7, t2), Sig: sigOverOtherExtension, SignedPrices: genuine})
		}
		c.deliver(o, c15Case{kind: "harvested-signatures", specs: specs, height: h, round: round, sender: o.Executors[0]}, vn, true, &log)
		c.run.Distinct(fmt.Sprintf("scripted-harvested-signatures/%s/round%d", vn, round))
	}
}

// scriptedLateRelay: (1) a full update at t1; (2) an update at t3 in which one pair lacks quorum and keeps t1;
// (3) a late relay of an older, validly signed, complete commit at t2 with t1 < t2 < t3. No pair may go backwards.
func (c *c15) scriptedLateRelay(vn string, powers []int64) {
	o := newOracleEnv(powers, c15Pairs)
	var log []string
	t1, t2, t3 := int64(1_700_000_000_000_001_000), int64(1_700_000_000_000_002_000), int64(1_700_000_000_000_003_000)
	h := uint64(o.HostHeight) + 1
	c.deliver(o, c15Case{kind: "honest-all", specs: o.HonestSpecs(pricesAt(1_000_000, t1)), height: h, sender: o.Executors[0]}, vn, true, &log)
	// only a minority quotes each pair in turn at t3
	for _, starve := range c15Pairs {
		below, _ := subsetBelow(o, mon.NewRand(uint64(len(starve))))
		var specs []voteSpec
		for i := range o.Host {
			p := map[string]*big.Int{}
			for k, v := range pricesAt(3_000_000, t3) {
				p[k] = v
			}
			inBelow := false
			for _, b := range below {
				inBelow = inBelow || b == i
			}
			if !inBelow {
				delete(p, starve)
			}
			specs = append(specs, voteSpec{Val: i, Flag: cmtproto.BlockIDFlagCommit, Prices: p, Sig: sigValid})
		}
		br := o.Branch()
		blog := append([]string(nil), log...)
		c.deliver(br, c15Case{kind: "missing-pairs", specs: specs, height: h, sender: o.Executors[0]}, vn, true, &blog)
		c.deliver(br, c15Case{kind: "late-relay-of-older-commit", specs: br.HonestSpecs(pricesAt(2_000_000, t2)), height: h, sender: o.Executors[1]}, vn, true, &blog)
		c.run.Distinct("scripted-late-relay/" + vn + "/" + starve)
	}
}

func (c *c15) hostRefresh(o *OracleEnv, rng *mon.Rand, log *[]string) {
	run := c.run
	l2 := o.L2
	hBefore, setBefore := o.HostSetState()
	client := mon.Pick(rng, []string{o.ClientID, o.ClientID, "07-tendermint-9", ""})
	height := hBefore + int64(rng.Intn(5)) - 2
	gen := 1 + rng.Intn(1000)
	powers := make([]int64, len(o.Host))
	for i := range powers {
		powers[i] = 1 + int64(rng.Intn(50))
	}
	nv := newHostVals(powers, gen)
	if rng.Chance(40) && len(o.Host) > 2 {
		// the new set overlaps the recorded one: some validators stay (same key, new power), some leave, some join
		keep := 1 + rng.Intn(len(o.Host)) // up to all of them: the same members with other powers
		for i := 0; i < keep && i < len(nv); i++ {
			nv[i] = o.Host[i]
			nv[i].Power = powers[i]
		}
	}
	vs := cmtValSet(nv)
	addrMode := mon.Pick(rng, []string{"honest", "honest", "empty", "rotated", "of-recorded-set"})
	for i, v := range vs.Validators {
		// the address field of an entry is redundant (it follows from the public key) and supplied by the caller
		switch addrMode {
		case "empty":
			v.Address = nil
		case "rotated":
			v.Address = nv[(i+1)%len(nv)].Addr()
		case "of-recorded-set":
			v.Address = o.Host[i%len(o.Host)].Addr()
		}
	}
	broken := ""
	if rng.Chance(15) && len(vs.Validators) > 2 {
		// one entry in the middle of the refresh carries a key that cannot be decoded: the refresh fails as a whole
		k := 1 + rng.Intn(len(vs.Validators)-2)
		vs.Validators[k].PubKey = cmtcrypto.PublicKey{}
		broken = fmt.Sprintf(" (entry %d has no usable key)", k)
	}
	// the refresh is part of a transaction (the light-client update): its writes are kept only if it reports success
	cctx, write := l2.Ctx.CacheContext()
	err := l2.K.UpdateHostValidatorSet(cctx, client, height, vs)
	if err == nil {
		write()
	}
	run.Evaluations++
	hAfter, setAfter := o.HostSetState()
	if broken != "" && client == o.ClientID && height > hBefore {
		run.Check("C15.host_set_only_replaced_by_higher_height_from_client", err != nil && setString(setBefore) == setString(setAfter) && hBefore == hAfter, "c15.broken_refresh_left_traces", tail(append(*log, fmt.Sprintf("host_set_refresh client=%q height=%d%s -> err=%v", client, height, broken, err)), 15), "a refresh that cannot be decoded completely%s reported err=%v and left the recorded set {%s} (height %d), before it was {%s} (height %d)", broken, err, setString(setAfter), hAfter, setString(setBefore), hBefore)
		*log = append(*log, fmt.Sprintf("host_set_refresh client=%q height=%d%s -> err=%v", client, height, broken, err))
		return
	}
	if err == nil && client == o.ClientID && height > hBefore {
		want := map[string]int64{}
		for _, v := range nv {
			want[fmt.Sprintf("%X", v.Addr())] = v.Power
		}
		run.Check("C15.host_set_only_replaced_by_higher_height_from_client", setString(setAfter) == setString(want), "c15.host_set_not_the_refreshed_one", tail(append(*log, fmt.Sprintf("host_set_refresh client=%q height=%d address fields %s", client, height, addrMode)), 15), "after a refresh (address fields of the entries: %s) the recorded set is {%s}, the refreshed set is {%s}", addrMode, setString(setAfter), setString(want))
	}
	*log = append(*log, fmt.Sprintf("host_set_refresh client=%q height=%d (stored %d) -> err=%v stored now %d", client, height, hBefore, err, hAfter))
	replaced := setString(setBefore) != setString(setAfter) || hBefore != hAfter
	if replaced {
		run.Check("C15.host_set_only_replaced_by_higher_height_from_client", client == o.ClientID && height > hBefore, "c15.host_set_replaced", tail(*log, 15), "host validator set replaced by client %q height %d (stored height %d, configured client %q)", client, height, hBefore, o.ClientID)
		o.Host = nv
		o.HostHeight = hAfter
	} else {
		run.Hit("C15.host_set_only_replaced_by_higher_height_from_client")
	}
	run.Distinct(fmt.Sprintf("refresh/client=%v/dh=%d/replaced=%v", client == o.ClientID, height-hBefore, replaced))
}
