package props

import (
	"fmt"
	"time"

	ophosttypes "github.com/initia-labs/OPinit/x/ophost/types"

	"verifharness/mon"
	"verifharness/sim"
)

func init() { register("C01", "exploration", checkC01) }

func checkC01(run *mon.Run, rng *mon.Rand, thorough bool) {
	run.Rule = "seeded random multi-bridge L1 histories (all 12 ophost message types + bank sends, valid and invalid); monitors run after every step. A history is non-trivial if >=2 bridges held funds in the same denom, >=1 withdrawal was paid and >=1 cross-bridge or forged claim was rejected; distinct by final ophost state digest"
	run.Assumptions = []string{"bank/auth are the cosmos-sdk keepers", "rollback of rejected messages is baseapp's (the harness's) doing and is never counted as evidence"}
	for _, c := range []string{"C01.conservation", "C01.balance_deltas_exact", "C01.supply_unchanged", "C01.other_bridges_untouched", "C01.raw_keys_attributed", "C03.accepted_claim_is_committed"} {
		run.Declare(c, 50)
	}
	hist := pick(thorough, 24, 400)
	steps := pick(thorough, 250, 500)
	kinds := map[string]int{}
	for h := 0; h < hist && !run.TooMany(); h++ {
		r := rng.Split()
		nb := 3 + r.Intn(2)
		cfg := WorldCfg{Bridges: nb, Steps: steps, Periods: []time.Duration{time.Second, 5 * time.Second, 10 * time.Second, 1500 * time.Millisecond}}
		w := newL1World(run, r, MonSet{C01: true}, cfg)
		w.Run()
		// non-triviality of this history
		sameDenom := false
		for _, d := range w.env.Denoms {
			n := 0
			for id, b := range w.br {
				if b.exists && w.env.Escrow(id).AmountOf(d).IsPositive() {
					n++
				}
			}
			if n >= 2 {
				sameDenom = true
			}
		}
		for k, v := range w.feat {
			kinds[k] += v
		}
		if sameDenom && w.feat["withdraw_ok"] > 0 && w.feat["forged_rejected"] > 0 {
			run.Distinct("hist/" + sim.Digest(w.env.L1.Dump(ophosttypes.StoreKey)))
		}
		if h == 0 {
			n := len(w.log)
			if n > 25 {
				n = 25
			}
			run.Sample(map[string]interface{}{"history": h, "first_steps": w.log[:n]})
		}
	}
	for k, v := range kinds {
		run.Counters["feature."+k] = v
	}
	run.Extra["histories"] = hist
	run.Extra["steps_per_history"] = steps
	run.Notes = append(run.Notes, fmt.Sprintf("features observed across histories: %v", kinds))
}
