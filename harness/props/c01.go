package props

import (
	"fmt"
	"time"

	"cosmossdk.io/math"

	ophosttypes "github.com/initia-labs/OPinit/x/ophost/types"

	"verifharness/mon"
	"verifharness/ref"
	"verifharness/sim"
)

func init() { register("C01", "exploration", checkC01) }

// c01ManyBridges: per-bridge isolation over many bridge ids (the random histories keep to a handful): 70 bridges, a
// deposit into each, a withdrawal from some; after every step every escrow — found at its independently derived
// address — holds exactly what was deposited into that bridge and not yet withdrawn.
func c01ManyBridges(run *mon.Run, rng *mon.Rand) {
	run.Declare("C01.isolation_over_many_bridges", 50)
	const N = 70
	var periods []time.Duration
	for i := 0; i < N; i++ {
		periods = append(periods, 5*time.Second)
	}
	env := newL1Env(N, periods)
	want := map[uint64]int64{}
	check := func(step string) bool {
		for id := uint64(1); id <= N; id++ {
			got := env.L1.BK.GetBalance(env.L1.Ctx, refBridgeAddr(id), "uinit").Amount
			if !run.Check("C01.isolation_over_many_bridges", got.Equal(math.NewInt(want[id])), "c01.many_bridges_escrow", []string{step}, "%s: escrow of bridge %d holds %s uinit, deposits minus withdrawals of that bridge are %d", step, id, got, want[id]) {
				return false
			}
		}
		return true
	}
	for id := uint64(1); id <= N; id++ {
		amt := int64(1000 + id)
		if r := env.Deposit(env.Users[int(id)%len(env.Users)], id, "l2", "uinit", math.NewInt(amt), nil); r.Class != sim.OK {
			run.Fail("C01.isolation_over_many_bridges", "c01.many_bridges_deposit_failed", nil, "deposit into bridge %d failed: %s", id, r.ErrString())
			return
		}
		want[id] += amt
		run.Evaluations++
		if !check(fmt.Sprintf("after the deposit of %d into bridge %d", amt, id)) {
			return
		}
	}
	user := env.Users[1]
	for _, id := range []uint64{33, 1, 65, 64, 70} {
		o := env.ProposeTree(id, []Withdrawal{{id, 1, "l2a", user.String(), "uinit", 500}}, ref.PadLast, rng)
		env.L1.NextBlock(6 * time.Second)
		if r := env.L1.Deliver(o.Claim(0, user.String())); r.Class == sim.OK {
			want[id] -= 500
		}
		run.Evaluations++
		if !check(fmt.Sprintf("after a withdrawal of 500 from bridge %d", id)) {
			return
		}
	}
	run.Distinct("many-bridges")
}

func checkC01(run *mon.Run, rng *mon.Rand, thorough bool) {
	run.Rule = "seeded random multi-bridge L1 histories (all 12 ophost message types + bank sends, valid and invalid); monitors run after every step. A history is non-trivial if >=2 bridges held funds in the same denom, >=1 withdrawal was paid and >=1 cross-bridge or forged claim was rejected; distinct by final ophost state digest"
	run.Assumptions = []string{"bank/auth are the cosmos-sdk keepers", "rollback of rejected messages is baseapp's (the harness's) doing and is never counted as evidence"}
	for _, c := range []string{"C01.conservation", "C01.balance_deltas_exact", "C01.supply_unchanged", "C01.other_bridges_untouched", "C01.raw_keys_attributed", "C01.withdrawal_leaves_escrow_once", "C03.accepted_claim_is_committed"} {
		run.Declare(c, 50)
	}
	c01ManyBridges(run, rng.Split())
	hist := pick(thorough, 24, 400)
	steps := pick(thorough, 250, 500)
	kinds := map[string]int{}
	for h := 0; h < hist && !run.TooMany(); h++ {
		r := rng.Split()
		nb := 3 + r.Intn(2)
		cfg := WorldCfg{Bridges: nb, Steps: steps, Periods: []time.Duration{time.Second, 5 * time.Second, 10 * time.Second, 1500 * time.Millisecond}}
		w := newL1World(run, r, MonSet{C01: true}, cfg)
		w.Run()
		// non-triviality of this history
		sameDenom := false
		for _, d := range w.env.Denoms {
			n := 0
			for id, b := range w.br {
				if b.exists && w.env.Escrow(id).AmountOf(d).IsPositive() {
					n++
				}
			}
			if n >= 2 {
				sameDenom = true
			}
		}
		for k, v := range w.feat {
			kinds[k] += v
		}
		if sameDenom && w.feat["withdraw_ok"] > 0 && w.feat["forged_rejected"] > 0 {
			run.Distinct("hist/" + sim.Digest(w.env.L1.Dump(ophosttypes.StoreKey)))
		}
		if h == 0 {
			n := len(w.log)
			if n > 25 {
				n = 25
			}
			run.Sample(map[string]interface{}{"history": h, "first_steps": w.log[:n]})
		}
	}
	for k, v := range kinds {
		run.Counters["feature."+k] = v
	}
	run.Extra["histories"] = hist
	run.Extra["steps_per_history"] = steps
	run.Notes = append(run.Notes, fmt.Sprintf("features observed across histories: %v", kinds))
}
