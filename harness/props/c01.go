package props

import (
	"fmt"
	"time"

	"cosmossdk.io/math"

	ophosttypes "github.com/initia-labs/OPinit/x/ophost/types"

	"verifharness/mon"
	"verifharness/ref"
	"verifharness/sim"
)

func init() { register("C01", "exploration", checkC01) }

// c01ManyBridges: per-bridge isolation over many bridge ids (the random histories keep to a handful): 70 bridges, a
// deposit into each, a withdrawal from some; after every step every escrow — found at its independently derived
// address — holds exactly what was deposited into that bridge and not yet withdrawn.
func c01ManyBridges(run *mon.Run, rng *mon.Rand) {
	run.Declare("C01.isolation_over_many_bridges", 50)
	const N = 70
	var periods []time.Duration
	for i := 0; i < N; i++ {
		periods = append(periods, 5*time.Second)
	}
	env := newL1Env(N, periods)
	want := map[uint64]int64{}
	check := func(step string) bool {
		for id := uint64(1); id <= N; id++ {
			got := env.L1.BK.GetBalance(env.L1.Ctx, refBridgeAddr(id), "uinit").Amount
			if !run.Check("C01.isolation_over_many_bridges", got.Equal(math.NewInt(want[id])), "c01.many_bridges_escrow", []string{step}, "%s: escrow of bridge %d holds %s uinit, deposits minus withdrawals of that bridge are %d", step, id, got, want[id]) {
				return false
			}
		}
		return true
	}
	for id := uint64(1); id <= N; id++ {
		amt := int64(1000 + id)
		if r := env.Deposit(env.Users[int(id)%len(env.Users)], id, "l2", "uinit", math.NewInt(amt), nil); r.Class != sim.OK {
			run.Fail("C01.isolation_over_many_bridges", "c01.many_bridges_deposit_failed", nil, "deposit into bridge %d failed: %s", id, r.ErrString())
			return
		}
		want[id] += amt
		run.Evaluations++
		if !check(fmt.Sprintf("after the deposit of %d into bridge %d", amt, id)) {
			return
		}
	}
	user := env.Users[1]
	for _, id := range []uint64{33, 1, 65, 64, 70} {
		o := env.ProposeTree(id, []Withdrawal{{id, 1, "l2a", user.String(), "uinit", 500}}, ref.PadLast, rng)
		env.L1.NextBlock(6 * time.Second)
		if r := env.L1.Deliver(o.Claim(0, user.String())); r.Class == sim.OK {
			want[id] -= 500
		}
		run.Evaluations++
		if !check(fmt.Sprintf("after a withdrawal of 500 from bridge %d", id)) {
			return
		}
	}
	run.Distinct("many-bridges")
}

// c01SameLeafInLaterOutputs: "deposits minus finalized withdrawals" counts a withdrawal once however many finalized
// outputs commit to it. One L2 withdrawal is committed by three outputs of the same bridge — the same tree under another
// block hash (same storage root, other output root) and a differently shaped tree holding the leaf at another position —
// and is claimed against each in turn, in a seed-determined order: the first claim pays, every later one must be refused
// and the escrow keeps deposits minus that one withdrawal (seeded change C01-U keyed the claim record by output root).
func c01SameLeafInLaterOutputs(run *mon.Run, rng *mon.Rand) {
	env := newL1Env(2, []time.Duration{5 * time.Second, 5 * time.Second})
	a, b := env.Users[1], env.Users[2]
	for id, amt := range []int64{0, 3000, 2000} {
		if id == 0 {
			continue
		}
		if r := env.Deposit(env.Users[0], uint64(id), "l2", "uinit", math.NewInt(amt), nil); r.Class != sim.OK {
			return // refusing deposits is not this clause's business
		}
	}
	w1 := Withdrawal{1, 1, "l2a", a.String(), "uinit", 1000}
	w2 := Withdrawal{1, 2, "l2b", b.String(), "uinit", 700}
	w3 := Withdrawal{1, 3, "l2c", b.String(), "uinit", 1}
	o1 := env.ProposeTree(1, []Withdrawal{w1, w2}, ref.PadLast, rng)
	o2 := env.ProposeTree(1, []Withdrawal{w1, w2}, ref.PadLast, rng)
	o3 := env.ProposeTree(1, []Withdrawal{w2, w3, w1}, ref.Promote, rng)
	env.L1.NextBlock(6 * time.Second)
	type claim struct {
		o *ProposedOutput
		i int
	}
	claims := []claim{{o1, 0}, {o2, 0}, {o3, 2}}
	for i := len(claims) - 1; i > 0; i-- {
		j := rng.Intn(i + 1)
		claims[i], claims[j] = claims[j], claims[i]
	}
	claims = append(claims, claims[0], claims[2])
	paid := 0
	var trace []string
	for _, c := range claims {
		r := env.L1.Deliver(c.o.Claim(c.i, a.String()))
		trace = append(trace, fmt.Sprintf("claim of withdrawal seq 1 (1000uinit) against output %d of bridge 1 -> %s %s", c.o.Index, r.Class, r.ErrString()))
		run.Evaluations++
		if r.Class == sim.OK {
			paid++
		}
		if paid == 0 {
			return // a valid first claim was refused: C04's business, nothing to judge here
		}
		got := env.L1.BK.GetBalance(env.L1.Ctx, refBridgeAddr(1), "uinit").Amount
		other := env.L1.BK.GetBalance(env.L1.Ctx, refBridgeAddr(2), "uinit").Amount
		if !run.Check("C01.withdrawal_leaves_escrow_once", paid == 1 && got.Equal(math.NewInt(2000)) && other.Equal(math.NewInt(2000)), "c01.same_withdrawal_paid_again.later_output", trace,
			"one withdrawal of 1000 committed by outputs %d, %d and %d of bridge 1 was paid %d times; escrow of bridge 1 holds %s (deposits 3000), of bridge 2 %s (deposits 2000)", o1.Index, o2.Index, o3.Index, paid, got, other) {
			return
		}
	}
	run.Distinct(fmt.Sprintf("same-leaf-later-outputs/first=%d", claims[0].o.Index))
}

func checkC01(run *mon.Run, rng *mon.Rand, thorough bool) {
	run.Rule = "seeded random multi-bridge L1 histories (all 12 ophost message types + bank sends, valid and invalid); monitors run after every step. A history is non-trivial if >=2 bridges held funds in the same denom, >=1 withdrawal was paid and >=1 cross-bridge or forged claim was rejected; distinct by final ophost state digest"
	run.Assumptions = []string{"bank/auth are the cosmos-sdk keepers", "rollback of rejected messages is baseapp's (the harness's) doing and is never counted as evidence"}
	for _, c := range []string{"C01.conservation", "C01.balance_deltas_exact", "C01.supply_unchanged", "C01.other_bridges_untouched", "C01.raw_keys_attributed", "C01.withdrawal_leaves_escrow_once", "C03.accepted_claim_is_committed"} {
		run.Declare(c, 50)
	}
	c01ManyBridges(run, rng.Split())
	hist := pick(thorough, 24, 400)
	steps := pick(thorough, 250, 500)
	kinds := map[string]int{}
	for h := 0; h < hist && !run.TooMany(); h++ {
		r := rng.Split()
		nb := 3 + r.Intn(2)
		cfg := WorldCfg{Bridges: nb, Steps: steps, Periods: []time.Duration{time.Second, 5 * time.Second, 10 * time.Second, 1500 * time.Millisecond}}
		w := newL1World(run, r, MonSet{C01: true}, cfg)
		w.Run()
		// non-triviality of this history
		sameDenom := false
		for _, d := range w.env.Denoms {
			n := 0
			for id, b := range w.br {
				if b.exists && w.env.Escrow(id).AmountOf(d).IsPositive() {
					n++
				}
			}
			if n >= 2 {
				sameDenom = true
			}
		}
		for k, v := range w.feat {
			kinds[k] += v
		}
		if sameDenom && w.feat["withdraw_ok"] > 0 && w.feat["forged_rejected"] > 0 {
			run.Distinct("hist/" + sim.Digest(w.env.L1.Dump(ophosttypes.StoreKey)))
		}
		if h == 0 {
			n := len(w.log)
			if n > 25 {
				n = 25
			}
			run.Sample(map[string]interface{}{"history": h, "first_steps": w.log[:n]})
		}
	}
	// after the histories, so that their random streams are the ones every earlier run of this check used
	for k := 0; k < 6; k++ {
		c01SameLeafInLaterOutputs(run, rng.Split())
	}
	for k, v := range kinds {
		run.Counters["feature."+k] = v
	}
	run.Extra["histories"] = hist
	run.Extra["steps_per_history"] = steps
	run.Notes = append(run.Notes, fmt.Sprintf("features observed across histories: %v", kinds))
}
