package props

import (
	"reflect"

	ophosttypes "github.com/initia-labs/OPinit/x/ophost/types"
)

// rootFromProofs calls ophosttypes.GenerateRootHashFromProofs through reflection so that the harness keeps building when
// a refactor changes the spelling of the leaf parameter or of the result between [32]byte and []byte (seeded change
// C01-Q did exactly that; a harness that no longer compiles decides nothing). It returns the root and the leaf buffer as
// the callee left it: with a slice parameter the callee can write into the caller's leaf, which a pure verification must
// not do.
var rootFn = reflect.ValueOf(ophosttypes.GenerateRootHashFromProofs)

func rootFromProofs(leaf [32]byte, proofs [][]byte) (root [32]byte, leafAfter [32]byte) {
	t := rootFn.Type()
	buf := new([32]byte)
	*buf = leaf
	var a0 reflect.Value
	if t.NumIn() == 2 && t.In(0).Kind() == reflect.Slice {
		a0 = reflect.ValueOf(buf[:])
	} else {
		a0 = reflect.ValueOf(*buf)
	}
	out := rootFn.Call([]reflect.Value{a0, reflect.ValueOf(proofs)})
	if len(out) > 0 {
		switch out[0].Kind() {
		case reflect.Array:
			reflect.Copy(reflect.ValueOf(root[:]), out[0])
		case reflect.Slice:
			copy(root[:], out[0].Bytes())
		}
	}
	return root, *buf
}

func first32(a, _ [32]byte) [32]byte { return a }

func firstOf(l []string) string {
	if len(l) == 0 {
		return ""
	}
	return l[0]
}
