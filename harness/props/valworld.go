package props

import (
	"fmt"
	"sort"
	"strings"

	abci "github.com/cometbft/cometbft/abci/types"

	sdk "github.com/cosmos/cosmos-sdk/types"
	"github.com/cosmos/cosmos-sdk/types/query"

	opchildtypes "github.com/initia-labs/OPinit/x/opchild/types"

	"verifharness/mon"
	"verifharness/sim"
)

// ---------------------------------------------------------------------------
// Validator-set world shared by C13 and C14: the real CometBFT ValidatorSet is
// the engine oracle; state is read through queries and exported collections.
// ---------------------------------------------------------------------------

type valModel struct {
	removedThisBlock map[string]bool // operator (valoper string) removed by a successful message in the current block
	mustHaveHist     map[int64]bool  // heights whose historical entry must exist
	retentionEver0   bool
	lastBonded       map[string]int64 // cons addr hex → power, as of the last completed block
	halted           bool             // engine refused an empty set: the history ends
}

func (m *valModel) clone() *valModel {
	n := &valModel{removedThisBlock: map[string]bool{}, mustHaveHist: map[int64]bool{}, retentionEver0: m.retentionEver0, lastBonded: map[string]int64{}, halted: m.halted}
	for k, v := range m.removedThisBlock {
		n.removedThisBlock[k] = v
	}
	for k, v := range m.mustHaveHist {
		n.mustHaveHist[k] = v
	}
	for k, v := range m.lastBonded {
		n.lastBonded[k] = v
	}
	return n
}

type valWorld struct {
	adds int // add messages sent so far (every third spells its operator in upper case)
	run  *mon.Run
	e    *L2Env
	m    *valModel
	path []string
	pfx  string // clause prefix: "C13" or "C14"
	// specBlocks: every block end is first executed on a throw-away branch (an aborted / replayed block execution)
	specBlocks bool
	// sigClass, when set, replaces the "val." signature prefix (C14 scenarios carry the plan's structural class)
	sigClass string
}

func (w *valWorld) sig(s string) string {
	if w.sigClass != "" {
		return w.sigClass + "." + s
	}
	return "val." + s
}

func (w *valWorld) fork() *valWorld {
	return &valWorld{run: w.run, e: w.e.Branch(), m: w.m.clone(), path: append([]string(nil), w.path...), pfx: w.pfx, sigClass: w.sigClass, specBlocks: w.specBlocks}
}

func (w *valWorld) logf(f string, a ...interface{}) { w.path = append(w.path, fmt.Sprintf(f, a...)) }

func newValWorld(run *mon.Run, pfx string, genesis []ValKey, maxVals, retention uint32) *valWorld {
	return newValWorldOpts(run, pfx, L2EnvOpts{GenesisVals: genesis, MaxValidators: maxVals, Historical: retention})
}

func newValWorldOpts(run *mon.Run, pfx string, o L2EnvOpts) *valWorld {
	genesis, maxVals, retention := o.GenesisVals, o.MaxValidators, o.Historical
	e := newL2Env(o)
	w := &valWorld{run: run, e: e, pfx: pfx, m: &valModel{removedThisBlock: map[string]bool{}, mustHaveHist: map[int64]bool{}, lastBonded: map[string]int64{}}}
	w.m.retentionEver0 = retention == 0
	for _, g := range genesis {
		w.m.lastBonded[g.ConsAddrHex()] = 1
	}
	w.logf("genesis validators=%d max=%d retention=%d", len(genesis), maxVals, retention)
	// the genesis batch must be one the engine accepts and describe the bonded set
	w.compareSets("genesis")
	return w
}

func (w *valWorld) addValidator(v ValKey, opIdx, keyIdx int) sim.Result {
	moniker := fmt.Sprintf("m%d", opIdx)
	if opIdx%3 == 2 {
		moniker = fmt.Sprintf("validator-%d-with-a-moniker-as-long-as-its-operator-likes-nothing-in-the-messages-bounds-it-%d", opIdx, keyIdx)
	}
	spelled := v.Operator.Val()
	w.adds++
	if w.adds%3 == 0 {
		spelled = strings.ToUpper(spelled) // the same operator under the upper-case bech32 spelling
	}
	msg, err := opchildtypes.NewMsgAddValidator(moniker, w.e.L2.Authority, spelled, v.Pub)
	if err != nil {
		panic(err)
	}
	res := w.e.L2.Deliver(msg)
	w.run.Evaluations++
	w.logf("add(op%d,key%d%s) -> %s %s", opIdx, keyIdx, map[bool]string{true: ",upper-case operator", false: ""}[spelled != v.Operator.Val()], res.Class, res.ErrString())
	return res
}

func (w *valWorld) removeValidator(op sim.Account, opIdx int) sim.Result {
	msg, _ := opchildtypes.NewMsgRemoveValidator(w.e.L2.Authority, op.Val())
	res := w.e.L2.Deliver(msg)
	w.run.Evaluations++
	w.logf("remove(op%d) -> %s %s", opIdx, res.Class, res.ErrString())
	if res.Class == sim.OK {
		w.m.removedThisBlock[op.Val()] = true
	}
	return res
}

func (w *valWorld) setParams(mut func(p *opchildtypes.Params), what string) sim.Result {
	p, err := w.e.L2.K.GetParams(w.e.L2.Ctx)
	if err != nil {
		panic(err)
	}
	mut(&p)
	res := w.e.L2.Deliver(opchildtypes.NewMsgUpdateParams(w.e.L2.Authority, &p))
	w.run.Evaluations++
	w.logf("%s -> %s %s", what, res.Class, res.ErrString())
	return res
}

type stateVal struct {
	operator string
	cons     string
	power    int64
}

func (w *valWorld) stateValidators() []stateVal {
	l2 := w.e.L2
	var out []stateVal
	var key []byte
	for {
		res, err := l2.Q.Validators(l2.Ctx, &opchildtypes.QueryValidatorsRequest{Pagination: &query.PageRequest{Key: key, Limit: 3}})
		if err != nil {
			w.run.Fail(w.pfx+".queries_work", w.sig("query_validators"), w.path, "Query/Validators failed: %v", err)
			return out
		}
		for _, v := range res.Validators {
			ca, err := v.GetConsAddr()
			if err != nil {
				w.run.Fail(w.pfx+".queries_work", w.sig("consaddr"), w.path, "validator %s has no consensus address: %v", v.OperatorAddress, err)
				continue
			}
			out = append(out, stateVal{v.OperatorAddress, fmt.Sprintf("%X", ca.Bytes()), v.ConsPower})
		}
		if res.Pagination == nil || len(res.Pagination.NextKey) == 0 {
			break
		}
		key = res.Pagination.NextKey
	}
	return out
}

func setString(m map[string]int64) string {
	ks := make([]string, 0, len(m))
	for k := range m {
		ks = append(ks, k)
	}
	sort.Strings(ks)
	var sb strings.Builder
	for _, k := range ks {
		fmt.Fprintf(&sb, "%s:%d ", k[:8], m[k])
	}
	return strings.TrimSpace(sb.String())
}

// compareSets: engine set == positive-power validators in state == recorded last powers; index bijection.
func (w *valWorld) compareSets(where string) {
	l2 := w.e.L2
	run := w.run
	engine := l2.EngineSet()
	svals := w.stateValidators()
	state := map[string]int64{}
	byOp := map[string]stateVal{}
	consSeen := map[string]string{}
	for _, v := range svals {
		if v.power > 0 {
			state[v.cons] = v.power
		}
		byOp[canonOp(v.operator)] = v
		if prev, dup := consSeen[v.cons]; dup {
			run.Fail(w.pfx+".index_bijection", w.sig("cons_key_shared"), w.path, "consensus key %s is held by two stored validators %s and %s", v.cons[:8], prev, v.operator)
		}
		consSeen[v.cons] = v.operator
	}
	last := map[string]int64{}
	lastOK := true
	_ = l2.K.IterateLastValidatorPowers(l2.Ctx, func(op []byte, power int64) (bool, error) {
		v, ok := byOp[sdk.ValAddress(op).String()]
		if !ok {
			lastOK = false
			return false, nil
		}
		last[v.cons] = power
		return false, nil
	})
	run.Check(w.pfx+".engine_equals_state", setString(engine) == setString(state), w.sig("engine_vs_state"), w.path, "%s: engine set {%s} != positive-power validators in state {%s}", where, setString(engine), setString(state))
	run.Check(w.pfx+".engine_equals_last_powers", lastOK && setString(engine) == setString(last), w.sig("engine_vs_lastpowers"), w.path, "%s: engine set {%s} != recorded last powers {%s} (dangling=%v)", where, setString(engine), setString(last), !lastOK)
	// index bijection: operator → record → cons key → operator
	good := true
	why := ""
	for _, v := range svals {
		r, err := l2.Q.Validator(l2.Ctx, &opchildtypes.QueryValidatorRequest{ValidatorAddr: v.operator})
		if err != nil || r.Validator.OperatorAddress != v.operator {
			good, why = false, "Query/Validator("+v.operator+") fails"
		}
		ca, _ := r.Validator.GetConsAddr()
		back, found := l2.K.GetValidatorByConsAddr(l2.Ctx, ca)
		if !found || back.OperatorAddress != v.operator {
			good, why = false, "cons-key index of "+v.operator+" points elsewhere"
		}
	}
	nIdx := 0
	_ = l2.K.ValidatorsByConsAddr.Walk(l2.Ctx, nil, func(cons []byte, op []byte) (bool, error) {
		nIdx++
		v, ok := byOp[sdk.ValAddress(op).String()]
		if !ok || v.cons != fmt.Sprintf("%X", cons) {
			good, why = false, fmt.Sprintf("cons-key index entry %X has no matching validator", cons)
		}
		return false, nil
	})
	if nIdx != len(svals) {
		good, why = false, fmt.Sprintf("%d cons-key index entries for %d validators", nIdx, len(svals))
	}
	run.Check(w.pfx+".index_bijection", good, w.sig("index_bijection"), w.path, "%s: %s", where, why)
	// capacity
	p, _ := l2.K.GetParams(l2.Ctx)
	run.Check(w.pfx+".bonded_within_max", len(last) <= int(p.MaxValidators) && len(state) <= int(p.MaxValidators), w.sig("capacity"), w.path, "%s: %d bonded validators, maximum %d", where, len(state), p.MaxValidators)
	w.m.lastBonded = state
}

// classifyEngineErr maps the engine's refusal to the kinds named by the property.
func classifyEngineErr(err error) string {
	if err == nil {
		return ""
	}
	s := err.Error()
	switch {
	case strings.Contains(s, "duplicate entry"):
		return "duplicate_key"
	case strings.Contains(s, "failed to find validator"):
		return "unknown_removal"
	case strings.Contains(s, "negative"):
		return "negative_power"
	case strings.Contains(s, "empty set"):
		return "empty_set"
	}
	return "other:" + s
}

func updatesString(ups []abci.ValidatorUpdate) string {
	var sb strings.Builder
	for _, u := range ups {
		kb := u.PubKey.GetEd25519()
		if kb == nil {
			kb = u.PubKey.GetSecp256K1()
		}
		if len(kb) > 4 {
			kb = kb[:4]
		}
		fmt.Fprintf(&sb, "%X:%d ", kb, u.Power)
	}
	return sb.String()
}

// endBlock runs EndBlocker + next BeginBlocker and evaluates the per-block clauses.
// Returns false if the history cannot continue (chain halted).
func (w *valWorld) endBlock() bool {
	run := w.run
	l2 := w.e.L2
	if w.specBlocks {
		sb := l2.Branch()
		sb.T = nil
		_ = sb.EndBlock()
	}
	br := l2.EndBlock()
	run.Evaluations++
	h := l2.Ctx.BlockHeight()
	w.logf("end_block(h=%d) updates=[%s] err=%v engine=%v", h, updatesString(br.Updates), br.EndErr, br.EngineErr)
	if br.EndErr != nil || br.PanicEnd != nil {
		run.Check(w.pfx+".block_processing_never_aborts", false, w.sig("endblock_failed"), w.path, "EndBlocker failed at height %d: err=%v panic=%v", h, br.EndErr, br.PanicEnd)
		return false
	}
	run.Hit(w.pfx + ".block_processing_never_aborts")
	if kind := classifyEngineErr(br.EngineErr); kind != "" {
		if kind == "empty_set" {
			// the authority removed every validator: the chain halts by its operator's decision; not one of the
			// rejection kinds the property names. The history ends here.
			run.Count(w.pfx + ".histories_ended_by_empty_set")
			w.m.halted = true
			return false
		}
		run.Check(w.pfx+".engine_accepts_batch", false, w.sig("engine_rejects."+strings.SplitN(kind, ":", 2)[0]), w.path, "consensus engine rejects the returned batch [%s]: %v", updatesString(br.Updates), br.EngineErr)
		return false
	}
	run.Hit(w.pfx + ".engine_accepts_batch")
	w.compareSets(fmt.Sprintf("after block %d", h))
	// removed validators are gone
	for op := range w.m.removedThisBlock {
		_, err := l2.Q.Validator(l2.Ctx, &opchildtypes.QueryValidatorRequest{ValidatorAddr: op})
		run.Check(w.pfx+".removed_validator_is_gone", err != nil, w.sig("removed_validator_still_stored"), w.path, "validator %s was removed during block %d and is still stored after it", short(op[13:]), h)
	}
	w.m.removedThisBlock = map[string]bool{}
	// next block begins
	bonded := map[string]int64{}
	for k, v := range w.m.lastBonded {
		bonded[k] = v
	}
	err, pv := l2.BeginBlock(1e9)
	if err != nil || pv != nil {
		run.Check(w.pfx+".block_processing_never_aborts", false, w.sig("beginblock_failed"), w.path, "BeginBlocker failed at height %d: err=%v panic=%v", h+1, err, pv)
		return false
	}
	w.checkHistory(bonded)
	return true
}

func (w *valWorld) checkHistory(bonded map[string]int64) {
	l2 := w.e.L2
	run := w.run
	h := l2.Ctx.BlockHeight()
	p, _ := l2.K.GetParams(l2.Ctx)
	n := int64(p.HistoricalEntries)
	if n == 0 {
		w.m.retentionEver0 = true
	}
	for e := range w.m.mustHaveHist {
		if e <= h-n {
			delete(w.m.mustHaveHist, e)
		}
	}
	if n > 0 {
		w.m.mustHaveHist[h] = true
	}
	actual := map[int64]bool{}
	it, err := l2.K.HistoricalInfos.Iterate(l2.Ctx, nil)
	if err == nil {
		for ; it.Valid(); it.Next() {
			k, _ := it.Key()
			actual[k] = true
		}
		it.Close()
	}
	missing := []int64{}
	for e := range w.m.mustHaveHist {
		if !actual[e] {
			missing = append(missing, e)
		}
	}
	run.Check(w.pfx+".history_within_retention_present", len(missing) == 0, w.sig("history_missing"), w.path, "height %d retention %d: historical entries missing for heights %v", h, n, missing)
	if !w.m.retentionEver0 {
		extra := []int64{}
		for e := range actual {
			if !w.m.mustHaveHist[e] {
				extra = append(extra, e)
			}
		}
		run.Check(w.pfx+".history_pruned_to_retention", len(extra) == 0, w.sig("history_not_pruned"), w.path, "height %d retention %d: historical entries outside retention %v", h, n, extra)
	}
	if n > 0 {
		hi, err := l2.K.GetHistoricalInfo(l2.Ctx, h)
		if err == nil {
			got := map[string]int64{}
			for _, v := range hi.Valset {
				pk, e := v.ConsPubKey()
				if e != nil {
					continue
				}
				got[fmt.Sprintf("%X", pk.Address().Bytes())] = v.Tokens.Quo(sdk.DefaultPowerReduction).Int64()
			}
			run.Check(w.pfx+".history_lists_bonded_set", setString(got) == setString(bonded), w.sig("history_content"), w.path, "historical record of height %d lists {%s}, bonded set is {%s}", h, setString(got), setString(bonded))
		}
	}
}

var _ = mon.NewRand

// canonOp: operators are identified by their address, not by how a record spells it (a genesis file may spell an
// operator address in upper case; the module's own maps are keyed by the spelling of the record, ours by the account).
func canonOp(s string) string {
	if b, err := sdk.ValAddressFromBech32(s); err == nil {
		return sdk.ValAddress(b).String()
	}
	return s
}
