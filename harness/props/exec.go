package props

import (
	"encoding/hex"
	"fmt"
	"strconv"
	"time"

	abci "github.com/cometbft/cometbft/abci/types"

	"cosmossdk.io/math"
	sdk "github.com/cosmos/cosmos-sdk/types"

	opchildtypes "github.com/initia-labs/OPinit/x/opchild/types"
	ophosttypes "github.com/initia-labs/OPinit/x/ophost/types"

	"verifharness/mon"
	"verifharness/ref"
	"verifharness/sim"
)

// ---------------------------------------------------------------------------
// A faithful executor / relayer model: it only ever acts on what it parses from
// events (by the exported constants), exactly as the off-chain bots do.
// ---------------------------------------------------------------------------

// L1DepositEvent is an initiate_token_deposit event as parsed by the executor.
type L1DepositEvent struct {
	BridgeID uint64
	Seq      uint64
	From, To string
	L1Denom  string
	L2Denom  string
	Amount   math.Int
	Data     []byte
}

func parseL1Deposits(events []abci.Event) []L1DepositEvent {
	var out []L1DepositEvent
	for _, e := range events {
		if e.Type != ophosttypes.EventTypeInitiateTokenDeposit {
			continue
		}
		var d L1DepositEvent
		get := func(k string) string { v, _ := sim.Attr(e, k); return v }
		d.BridgeID, _ = strconv.ParseUint(get(ophosttypes.AttributeKeyBridgeId), 10, 64)
		d.Seq, _ = strconv.ParseUint(get(ophosttypes.AttributeKeyL1Sequence), 10, 64)
		d.From, d.To = get(ophosttypes.AttributeKeyFrom), get(ophosttypes.AttributeKeyTo)
		d.L1Denom, d.L2Denom = get(ophosttypes.AttributeKeyL1Denom), get(ophosttypes.AttributeKeyL2Denom)
		d.Amount, _ = math.NewIntFromString(get(ophosttypes.AttributeKeyAmount))
		d.Data, _ = hex.DecodeString(get(ophosttypes.AttributeKeyData))
		out = append(out, d)
	}
	return out
}

// L2WithdrawalEvent is an initiate_token_withdrawal event as parsed by the executor.
type L2WithdrawalEvent struct {
	Seq       uint64
	From, To  string
	Denom     string
	BaseDenom string
	Amount    math.Int
}

func parseL2Withdrawals(events []abci.Event) []L2WithdrawalEvent {
	var out []L2WithdrawalEvent
	for _, e := range events {
		if e.Type != opchildtypes.EventTypeInitiateTokenWithdrawal {
			continue
		}
		var w L2WithdrawalEvent
		get := func(k string) string { v, _ := sim.Attr(e, k); return v }
		w.Seq, _ = strconv.ParseUint(get(opchildtypes.AttributeKeyL2Sequence), 10, 64)
		w.From, w.To = get(opchildtypes.AttributeKeyFrom), get(opchildtypes.AttributeKeyTo)
		w.Denom, w.BaseDenom = get(opchildtypes.AttributeKeyDenom), get(opchildtypes.AttributeKeyBaseDenom)
		w.Amount, _ = math.NewIntFromString(get(opchildtypes.AttributeKeyAmount))
		out = append(out, w)
	}
	return out
}

// TwoChain is one L1 + one L2 bound by a bridge, with an executor in between.
type TwoChain struct {
	L1     *L1Env
	L2     *L2Env
	Bridge uint64
	Period time.Duration

	// BankFaults, when set, makes a fraction of the relays of plain deposits run with an error or panic injected at the
	// handler's mint / transfer (see L2Env.DeliverWithBankFault); FaultsFired counts them
	BankFaults  *mon.Rand
	FaultsFired int
	// SeqAnomaly: the first announced withdrawal whose L2 sequence is not its predecessor's + 1 (two withdrawals with one
	// sequence collapse into one L1 leaf; a gap is a withdrawal nobody can commit)
	SeqAnomaly string

	PendingDeposits []L1DepositEvent    // emitted on L1, not yet relayed
	Recorded        []L2WithdrawalEvent // recorded on L2, not yet committed in an output
	AllWithdrawals  []L2WithdrawalEvent
	Outputs         []*ProposedOutput
}

func newTwoChain(period time.Duration, l2opts L2EnvOpts) *TwoChain {
	tc := &TwoChain{Bridge: 1, Period: period}
	tc.L1 = newL1Env(1, []time.Duration{period})
	l2opts.BridgeID = 1
	tc.L2 = newL2Env(l2opts)
	return tc
}

// L1Deposit delivers a deposit on L1 and queues the emitted event for relay.
func (tc *TwoChain) L1Deposit(from sim.Account, to, denom string, amt math.Int, data []byte) sim.Result {
	res := tc.L1.Deposit(from, tc.Bridge, to, denom, amt, data)
	if res.Class == sim.OK {
		tc.PendingDeposits = append(tc.PendingDeposits, parseL1Deposits(res.Events)...)
	}
	return res
}

// RelayMsg builds the L2 message for a parsed L1 deposit.
func (tc *TwoChain) RelayMsg(executor sim.Account, d L1DepositEvent) *opchildtypes.MsgFinalizeTokenDeposit {
	return opchildtypes.NewMsgFinalizeTokenDeposit(executor.String(), d.From, d.To, sdk.NewCoin(d.L2Denom, d.Amount), d.Seq, uint64(tc.L1.L1.Ctx.BlockHeight()), d.L1Denom, d.Data)
}

// RelayNext relays the oldest pending deposit; withdrawals (refunds) it causes are recorded.
// An in-order relay that is answered with anything but SUCCESS is turned into an error result:
// the executor cannot make progress with it.
func (tc *TwoChain) RelayNext() (sim.Result, bool) {
	if len(tc.PendingDeposits) == 0 {
		return sim.Result{}, false
	}
	d := tc.PendingDeposits[0]
	var res sim.Result
	if tc.BankFaults != nil && len(d.Data) == 0 && d.Amount.IsPositive() && tc.BankFaults.Chance(12) {
		var fault string
		if res, fault = tc.L2.DeliverWithBankFault(tc.BankFaults, 500_000_000, tc.RelayMsg(tc.L2.Executors[0], d)); fault != "" {
			tc.FaultsFired++
		}
	} else {
		res = tc.L2.L2.DeliverGas(500_000_000, tc.RelayMsg(tc.L2.Executors[0], d))
	}
	if res.Class == sim.OK {
		if r, ok := res.Resp().(*opchildtypes.MsgFinalizeTokenDepositResponse); ok && r.Result == opchildtypes.SUCCESS {
			tc.PendingDeposits = tc.PendingDeposits[1:]
			tc.record(res)
		} else {
			return sim.Result{Class: sim.ERR, Err: fmt.Errorf("in-order relay of L1 sequence %d was answered %v instead of SUCCESS", d.Seq, res.Resp())}, true
		}
	}
	return res, true
}

func (tc *TwoChain) record(res sim.Result) {
	ws := parseL2Withdrawals(res.Events)
	for _, w := range ws {
		if n := len(tc.AllWithdrawals); n > 0 && w.Seq != tc.AllWithdrawals[n-1].Seq+1 && tc.SeqAnomaly == "" {
			tc.SeqAnomaly = fmt.Sprintf("withdrawal announced with L2 sequence %d right after sequence %d", w.Seq, tc.AllWithdrawals[n-1].Seq)
		}
		tc.AllWithdrawals = append(tc.AllWithdrawals, w)
	}
	tc.Recorded = append(tc.Recorded, ws...)
	return
}

// L2Withdraw delivers a user withdrawal on L2 and records the emitted event.
func (tc *TwoChain) L2Withdraw(user sim.Account, to, l2denom string, amt math.Int) sim.Result {
	res := tc.L2.L2.Deliver(opchildtypes.NewMsgInitiateTokenWithdrawal(user.String(), to, sdk.NewCoin(l2denom, amt)))
	if res.Class == sim.OK {
		tc.record(res)
	}
	return res
}

// ToLeaf converts a recorded withdrawal into the identity the tree commits to.
// ok=false if the executor cannot represent it (amount does not fit the 64-bit leaf field).
func (tc *TwoChain) ToLeaf(w L2WithdrawalEvent) (Withdrawal, bool) {
	if !w.Amount.IsUint64() {
		return Withdrawal{}, false
	}
	return Withdrawal{BridgeID: tc.Bridge, Seq: w.Seq, From: w.From, To: w.To, Denom: w.BaseDenom, Amount: w.Amount.Uint64()}, true
}

// ProposeRecorded commits every recorded-but-uncommitted withdrawal in a new output.
func (tc *TwoChain) ProposeRecorded(shape ref.TreeShape, rng *mon.Rand) (*ProposedOutput, []L2WithdrawalEvent, error) {
	var ws []Withdrawal
	var unrepresentable []L2WithdrawalEvent
	for _, w := range tc.Recorded {
		if l, ok := tc.ToLeaf(w); ok {
			ws = append(ws, l)
		} else {
			unrepresentable = append(unrepresentable, w)
		}
	}
	tc.Recorded = nil
	if len(ws) == 0 {
		return nil, unrepresentable, nil
	}
	o := BuildOutput(tc.Bridge, ws, shape, rng)
	if res := tc.L1.Propose(o); res.Class != sim.OK {
		return nil, unrepresentable, fmt.Errorf("propose failed: %s", res.ErrString())
	}
	tc.Outputs = append(tc.Outputs, o)
	return o, unrepresentable, nil
}
