package props

import (
	"bytes"
	"fmt"
	"sort"
	"strings"
	"time"

	"cosmossdk.io/math"
	sdk "github.com/cosmos/cosmos-sdk/types"
	banktypes "github.com/cosmos/cosmos-sdk/x/bank/types"

	opchildtypes "github.com/initia-labs/OPinit/x/opchild/types"
	ophosttypes "github.com/initia-labs/OPinit/x/ophost/types"

	"verifharness/mon"
	"verifharness/sim"
)

func init() { register("C16", "exploration", checkC16) }

type c16 struct {
	run *mon.Run
	rng *mon.Rand
}

// ---------------- L1 ----------------

func l1ExportJSON(l1 *sim.L1) []byte {
	gs := l1.K.ExportGenesis(l1.Ctx)
	return l1.Enc.Codec.MustMarshalJSON(gs)
}

// importL1 builds a fresh chain from the exported genesis of src (ophost + auth + bank), at the same header.
func importL1(src *sim.L1) (dst *sim.L1, err error) { return importL1Opts(src, true) }

// importL1Opts: validate=false skips ValidateGenesis, as a node does when it starts from a genesis file (validation is a
// separate, offline command).
func importL1Opts(src *sim.L1, validate bool) (dst *sim.L1, err error) {
	defer func() {
		if r := recover(); r != nil {
			err = fmt.Errorf("import panicked: %v", r)
		}
	}()
	gs := src.K.ExportGenesis(src.Ctx)
	if verr := ophosttypes.ValidateGenesis(gs, src.AK.AddressCodec()); verr != nil && validate {
		return nil, fmt.Errorf("ValidateGenesis(Export) failed: %w", verr)
	}
	// round-trip through JSON, as a real genesis file would
	bz := src.Enc.Codec.MustMarshalJSON(gs)
	dst = sim.NewL1(sim.L1Opts{StartTime: src.Ctx.BlockTime()})
	dst.Ctx = dst.Ctx.WithBlockHeader(src.Ctx.BlockHeader())
	var gs2 ophosttypes.GenesisState
	dst.Enc.Codec.MustUnmarshalJSON(bz, &gs2)
	authGs := src.AK.ExportGenesis(src.Ctx)
	dst.AK.InitGenesis(dst.Ctx, *authGs)
	bankGs := src.BK.ExportGenesis(src.Ctx)
	dst.BK.InitGenesis(dst.Ctx, bankGs)
	dst.K.InitGenesis(dst.Ctx, &gs2)
	// channel/perm stand-ins are not part of ophost genesis; copy them (they belong to other modules)
	for _, kv := range src.Dump(sim.PermStoreKey, sim.ChanStoreKey) {
		dst.Ctx.KVStore(dst.Keys[kv.Store]).Set(kv.Key, kv.Value)
	}
	return dst, nil
}

// migrateL1 replaces the env's chain by one started from its exported genesis (export, validate, JSON, InitGenesis on a
// fresh chain; auth and bank travel along): a chain upgrade / restart from genesis in the middle of a history. The
// history then continues on the imported chain, still watched by the same monitors. Returns false (and changes
// nothing) if the export cannot be imported.
func migrateL1(e *L1Env) bool {
	old := e.L1
	dst, err := importL1Opts(old, false)
	if err != nil || dst == nil {
		return false
	}
	dst.T, dst.Speculate, dst.Shadow, dst.RestartEvery = old.T, old.Speculate, old.Shadow, old.RestartEvery
	e.L1 = dst
	sim.ShadowStats.Migrations.Add(1)
	return true
}

// migrateL2: as migrateL1, for the L2 (the cached L1 validator snapshot and per-height history do not travel, as the
// module documents).
func migrateL2(e *L2Env) bool {
	old := e.L2
	dst, _, err := importL2(e)
	if err != nil || dst == nil {
		return false
	}
	n := dst.L2
	n.T, n.Speculate, n.Shadow, n.RestartEvery = old.T, old.Speculate, old.Shadow, old.RestartEvery
	for h, p := range old.K.ExecutorChangePlans {
		n.K.ExecutorChangePlans[h] = p
	}
	e.L2 = n
	sim.ShadowStats.Migrations.Add(1)
	return true
}

// l1Probe runs a fixed script of messages and queries and returns a transcript.
func l1Probe(env *L1Env, model *L1World, seed uint64) []string {
	l1 := env.L1
	rng := mon.NewRand(seed)
	var out []string
	q := func(name string, v interface{}, err error) {
		out = append(out, fmt.Sprintf("Q %s -> %v err=%v", name, v, err))
	}
	m := func(name string, res sim.Result) {
		ev := ""
		for _, e := range res.Events {
			ev += e.Type + "{"
			for _, a := range e.Attributes {
				ev += a.Key + "=" + a.Value + ","
			}
			ev += "}"
		}
		resp := ""
		if res.Class == sim.OK && res.Resp() != nil {
			resp = res.Resp().String()
		}
		out = append(out, fmt.Sprintf("M %s -> %s resp=[%s] events=[%s]", name, res.Class, resp, ev))
	}
	ids := make([]uint64, 0)
	for id, b := range model.br {
		if b.exists {
			ids = append(ids, id)
		}
	}
	sort.Slice(ids, func(i, j int) bool { return ids[i] < ids[j] })
	queries := func() {
		r, err := l1.Q.Bridges(l1.Ctx, &ophosttypes.QueryBridgesRequest{})
		q("Bridges", r, err)
		p, err := l1.Q.Params(l1.Ctx, &ophosttypes.QueryParamsRequest{})
		q("Params", p, err)
		for _, id := range append(append([]uint64{}, ids...), 99) {
			b, err := l1.Q.Bridge(l1.Ctx, &ophosttypes.QueryBridgeRequest{BridgeId: id})
			q(fmt.Sprintf("Bridge(%d)", id), b, err)
			n, err := l1.Q.NextL1Sequence(l1.Ctx, &ophosttypes.QueryNextL1SequenceRequest{BridgeId: id})
			q(fmt.Sprintf("NextL1Sequence(%d)", id), n, err)
			t, err := l1.Q.TokenPairs(l1.Ctx, &ophosttypes.QueryTokenPairsRequest{BridgeId: id})
			q(fmt.Sprintf("TokenPairs(%d)", id), t, err)
			o, err := l1.Q.OutputProposals(l1.Ctx, &ophosttypes.QueryOutputProposalsRequest{BridgeId: id})
			q(fmt.Sprintf("OutputProposals(%d)", id), o, err)
			lf, err := l1.Q.LastFinalizedOutput(l1.Ctx, &ophosttypes.QueryLastFinalizedOutputRequest{BridgeId: id})
			q(fmt.Sprintf("LastFinalizedOutput(%d)", id), lf, err)
			bi, err := l1.Q.BatchInfos(l1.Ctx, &ophosttypes.QueryBatchInfosRequest{BridgeId: id})
			q(fmt.Sprintf("BatchInfos(%d)", id), bi, err)
			no, err := l1.K.GetNextOutputIndex(l1.Ctx, id)
			q(fmt.Sprintf("NextOutputIndex(%d)", id), no, err)
			q(fmt.Sprintf("Escrow(%d)", id), env.Escrow(id).String(), nil)
		}
		for _, id := range ids {
			b := model.br[id]
			for k := 0; k < 5 && len(b.all) > 0; k++ {
				w := b.all[rng.Intn(len(b.all))]
				h := w.Leaf()
				c, err := l1.Q.Claimed(l1.Ctx, &ophosttypes.QueryClaimedRequest{BridgeId: id, WithdrawalHash: h[:]})
				q(fmt.Sprintf("Claimed(%d,%x)", id, h[:4]), c, err)
			}
		}
	}
	queries()
	user := env.Users[3]
	for _, id := range ids {
		b := model.br[id]
		roles := model.env.Bridges[id]
		m(fmt.Sprintf("deposit(%d)", id), env.Deposit(user, id, "l2addr", "uinit", math.NewInt(123), []byte{1, 2}))
		m(fmt.Sprintf("deposit-new-denom(%d)", id), env.Deposit(user, id, "l2addr", "uusdc", math.NewInt(7), nil))
		// claims: paid and unpaid leaves of live outputs, and of deleted ones
		for _, o := range append(append([]*ProposedOutput{}, b.outputs...), b.dead...) {
			for i := range o.Ws {
				if i > 2 {
					break
				}
				m(fmt.Sprintf("claim(b%d,out%d,leaf%d)", id, o.Index, i), l1.Deliver(o.Claim(i, user.String())))
			}
		}
		next, _ := l1.K.GetNextOutputIndex(l1.Ctx, id)
		m(fmt.Sprintf("propose(%d,next)", id), l1.Deliver(ophosttypes.NewMsgProposeOutput(roles.Proposer.String(), id, next, roles.LastL2+10, bytes.Repeat([]byte{byte(id)}, 32))))
		m(fmt.Sprintf("propose(%d,same-l2-block)", id), l1.Deliver(ophosttypes.NewMsgProposeOutput(roles.Proposer.String(), id, next+1, roles.LastL2+10, bytes.Repeat([]byte{byte(id)}, 32))))
		m(fmt.Sprintf("delete(%d,last)", id), l1.Deliver(ophosttypes.NewMsgDeleteOutput(roles.Challenger.String(), id, next)))
		if next > 1 {
			m(fmt.Sprintf("delete(%d,first)", id), l1.Deliver(ophosttypes.NewMsgDeleteOutput(roles.Challenger.String(), id, 1)))
		}
		m(fmt.Sprintf("update-batch-info(%d)", id), l1.Deliver(ophosttypes.NewMsgUpdateBatchInfo(roles.Proposer.String(), id, ophosttypes.BatchInfo{Submitter: user.String(), ChainType: ophosttypes.BatchInfo_CHAIN_TYPE_CELESTIA})))
		m(fmt.Sprintf("update-proposer(%d) by old challenger", id), l1.Deliver(ophosttypes.NewMsgUpdateProposer(roles.Challenger.String(), id, user.String())))
		m(fmt.Sprintf("update-challenger(%d)", id), l1.Deliver(ophosttypes.NewMsgUpdateChallenger(roles.Challenger.String(), id, user.String())))
		m(fmt.Sprintf("record-batch(%d)", id), l1.Deliver(ophosttypes.NewMsgRecordBatch(user.String(), id, []byte{1})))
	}
	m("create-bridge", l1.Deliver(ophosttypes.NewMsgCreateBridge(user.String(), bridgeConfig(user.String(), user.String(), time.Minute, nil))))
	l1.NextBlock(time.Hour)
	queries()
	out = append(out, "EXPORT "+string(l1ExportJSON(l1)))
	return out
}

func (c *c16) l1State(w *L1World, label string) {
	run := c.run
	src := w.env.L1
	exp1 := l1ExportJSON(src)
	dst, err := importL1(src)
	run.Evaluations++
	if !run.Check("C16.L1.export_validates_and_imports", err == nil, "c16.l1.import_failed", w.trace(), "%s: %v", label, err) {
		return
	}
	exp2 := l1ExportJSON(dst)
	run.Check("C16.L1.export_import_export_identical", bytes.Equal(exp1, exp2), "c16.l1.reexport_differs", append(w.trace(), firstDiff(string(exp1), string(exp2))), "%s: re-exported genesis differs from the original export", label)
	// behavioural equivalence: the same probe script on branches of both chains
	seed := c.rng.U64()
	envA := w.env.Branch()
	envB := &L1Env{L1: dst, Users: w.env.Users, Denoms: w.env.Denoms, Bridges: envA.Bridges}
	// roles bookkeeping is harness-side and identical for both
	ta := l1Probe(envA, w, seed)
	envB.Bridges = w.env.Branch().Bridges
	tb := l1Probe(envB, w, seed)
	same := len(ta) == len(tb)
	diffAt := -1
	for i := 0; same && i < len(ta); i++ {
		if ta[i] != tb[i] {
			same, diffAt = false, i
		}
	}
	detail := ""
	if diffAt >= 0 {
		detail = firstDiff(ta[diffAt], tb[diffAt])
	}
	run.Check("C16.L1.behaviour_identical_after_import", same, "c16.l1.behaviour_differs", append(w.trace(), detail), "%s: probe step %d answers differently on the re-imported chain: %s", label, diffAt, detail)
	run.CountN("C16.L1.probe_steps", len(ta))
	okM := 0
	for _, l := range ta {
		if len(l) > 2 && l[0] == 'M' && containsStr(l, "-> ok") {
			okM++
		}
	}
	run.CountN("C16.L1.probe_messages_accepted", okM)
	if len(run.Samples) < 3 {
		var ms []string
		for _, l := range ta {
			if l[0] == 'M' {
				ms = append(ms, l[:minInt(len(l), 160)])
			}
		}
		run.Sample(map[string]interface{}{"l1_probe_messages": ms[:minInt(len(ms), 25)]})
	}
	nb, nout, nclaim, nbatch := 0, 0, 0, 0
	for _, b := range w.br {
		if b.exists {
			nb++
			nout += len(b.outputs)
			nclaim += len(b.paid)
			nbatch++
		}
	}
	if nb >= 2 && nout > 0 && nclaim > 0 && w.feat["delete_ok"] > 0 {
		run.Distinct("L1/" + sim.Digest(src.Dump(ophosttypes.StoreKey)))
	}
}

func firstDiff(a, b string) string {
	n := minInt(len(a), len(b))
	i := 0
	for i < n && a[i] == b[i] {
		i++
	}
	lo := i - 60
	if lo < 0 {
		lo = 0
	}
	return fmt.Sprintf("first difference at byte %d:\n  original : ...%s\n  reimport : ...%s", i, a[lo:minInt(len(a), i+120)], b[lo:minInt(len(b), i+120)])
}

// ---------------- L2 ----------------

func l2ExportJSON(l2 *sim.L2) []byte {
	return l2.Enc.Codec.MustMarshalJSON(l2.K.ExportGenesis(l2.Ctx))
}

func importL2(src *L2Env) (dst *L2Env, ups string, err error) {
	defer func() {
		if r := recover(); r != nil {
			err = fmt.Errorf("import panicked: %v", r)
		}
	}()
	s := src.L2
	gs := s.K.ExportGenesis(s.Ctx)
	if verr := opchildtypes.ValidateGenesis(gs, s.AK.AddressCodec()); verr != nil {
		return nil, "", fmt.Errorf("ValidateGenesis(Export) failed: %w", verr)
	}
	bz := s.Enc.Codec.MustMarshalJSON(gs)
	d := sim.NewL2(sim.L2Opts{})
	d.Ctx = d.Ctx.WithBlockHeader(s.Ctx.BlockHeader())
	var gs2 opchildtypes.GenesisState
	d.Enc.Codec.MustUnmarshalJSON(bz, &gs2)
	if uerr := gs2.UnpackInterfaces(d.Enc.InterfaceRegistry); uerr != nil {
		return nil, "", uerr
	}
	d.AK.InitGenesis(d.Ctx, *s.AK.ExportGenesis(s.Ctx))
	d.BK.InitGenesis(d.Ctx, s.BK.ExportGenesis(s.Ctx))
	updates, ierr := d.InitGenesis(&gs2)
	if ierr != nil {
		return nil, "", fmt.Errorf("engine refuses the import's validator updates: %w", ierr)
	}
	cp := *src
	cp.L2 = d
	return &cp, updatesString(updates), nil
}

func l2Probe(e *L2Env, seed uint64, knownVals []ValKey) []string {
	l2 := e.L2
	rng := mon.NewRand(seed)
	var out []string
	q := func(name string, v interface{}, err error) {
		out = append(out, fmt.Sprintf("Q %s -> %v err=%v", name, v, err))
	}
	m := func(name string, res sim.Result) {
		ev := ""
		for _, e := range res.Events {
			ev += e.Type + "{"
			for _, a := range e.Attributes {
				ev += a.Key + "=" + a.Value + ","
			}
			ev += "}"
		}
		resp := ""
		if res.Class == sim.OK && res.Resp() != nil {
			resp = res.Resp().String()
		}
		out = append(out, fmt.Sprintf("M %s -> %s resp=[%s] events=[%s]", name, res.Class, resp, ev))
	}
	queries := func() {
		p, err := l2.Q.Params(l2.Ctx, &opchildtypes.QueryParamsRequest{})
		q("Params", p, err)
		v, err := l2.Q.Validators(l2.Ctx, &opchildtypes.QueryValidatorsRequest{})
		q("Validators", v, err)
		a, err := l2.Q.NextL1Sequence(l2.Ctx, &opchildtypes.QueryNextL1SequenceRequest{})
		q("NextL1Sequence", a, err)
		b, err := l2.Q.NextL2Sequence(l2.Ctx, &opchildtypes.QueryNextL2SequenceRequest{})
		q("NextL2Sequence", b, err)
		bi, err := l2.Q.BridgeInfo(l2.Ctx, &opchildtypes.QueryBridgeInfoRequest{})
		q("BridgeInfo", bi, err)
		for _, d := range []string{"uinit", "uusdc", "ueth", "unknown"} {
			r, err := l2.Q.BaseDenom(l2.Ctx, &opchildtypes.QueryBaseDenomRequest{Denom: e.L2Denom(d)})
			q("BaseDenom("+d+")", r, err)
		}
		// every bridged denom anybody holds still knows its L1 name (a chain may hold more denoms than a query page)
		held := map[string]bool{}
		for _, coins := range sim.AllBalances(l2.Ctx, l2.BK) {
			for _, cn := range coins {
				held[cn.Denom] = true
			}
		}
		hd := make([]string, 0, len(held))
		for d := range held {
			hd = append(hd, d)
		}
		sort.Strings(hd)
		for _, d := range hd {
			r, err := l2.Q.BaseDenom(l2.Ctx, &opchildtypes.QueryBaseDenomRequest{Denom: d})
			q("BaseDenom(held "+short(d)+")", r, err)
		}
		for _, k := range knownVals {
			r, err := l2.Q.Validator(l2.Ctx, &opchildtypes.QueryValidatorRequest{ValidatorAddr: k.Operator.Val()})
			q("Validator("+k.Operator.Name+")", r, err)
		}
		var lp []string
		_ = l2.K.IterateLastValidatorPowers(l2.Ctx, func(op []byte, p int64) (bool, error) {
			lp = append(lp, fmt.Sprintf("%X:%d", op[:4], p))
			return false, nil
		})
		q("LastValidatorPowers", lp, nil)
	}
	queries()
	params, _ := l2.K.GetParams(l2.Ctx)
	var ex sim.Account
	for _, cand := range []sim.Account{e.Executors[0], e.Executors[1], sim.NewAccount("executorC"), sim.NewAccount("executorD")} {
		for _, be := range params.BridgeExecutors {
			if be == cand.String() {
				ex = cand
			}
		}
	}
	next := e.NextL1Seq()
	m("deposit(next)", l2.Deliver(e.DepositMsg(ex, next, "l1a", e.Users[0].String(), "uinit", math.NewInt(1000), nil)))
	m("deposit(stale)", l2.Deliver(e.DepositMsg(ex, next, "l1a", e.Users[0].String(), "uinit", math.NewInt(1000), nil)))
	m("deposit(ahead)", l2.Deliver(e.DepositMsg(ex, next+5, "l1a", e.Users[0].String(), "uinit", math.NewInt(1000), nil)))
	m("deposit(refund)", l2.Deliver(e.DepositMsg(ex, next+1, "l1a", "garbage", "uusdc", math.NewInt(55), nil)))
	m("deposit(conflicting base)", l2.Deliver(opchildtypes.NewMsgFinalizeTokenDeposit(ex.String(), "l1a", e.Users[1].String(), sdk.NewCoin(e.L2Denom("uinit"), math.NewInt(5)), next+2, 1, "uother", nil)))
	for i, u := range e.Users[:3] {
		bal := l2.BK.GetBalance(l2.Ctx, u.Addr, e.L2Denom("uinit")).Amount
		amt := math.NewInt(1)
		if bal.IsPositive() {
			amt = math.NewInt(1 + int64(rng.Intn(int(minI64(bal.Int64(), 1000)))))
		}
		m(fmt.Sprintf("withdraw(user%d)", i), l2.Deliver(opchildtypes.NewMsgInitiateTokenWithdrawal(u.String(), "l1recipient", sdk.NewCoin(e.L2Denom("uinit"), amt))))
	}
	m("withdraw(native)", l2.Deliver(opchildtypes.NewMsgInitiateTokenWithdrawal(e.Users[0].String(), "l1recipient", sdk.NewCoin("unative", math.NewInt(1)))))
	m("transfer", l2.Deliver(banktypes.NewMsgSend(e.Users[0].Addr, e.Users[4].Addr, sdk.NewCoins(sdk.NewCoin("unative", math.NewInt(1))))))
	// every known consensus key offered under a fresh operator (refused while any stored validator holds the key)
	for i, k := range knownVals {
		other := NewValKey(880 + i)
		msg, _ := opchildtypes.NewMsgAddValidator("squatter", l2.Authority, other.Operator.Val(), k.Pub)
		m(fmt.Sprintf("add(fresh operator %d, key of %s)", i, k.Operator.Name), l2.Deliver(msg))
	}
	// validator operations + block ends
	for i, k := range knownVals {
		if i%2 == 0 {
			msg, _ := opchildtypes.NewMsgRemoveValidator(l2.Authority, k.Operator.Val())
			m("remove("+k.Operator.Name+")", l2.Deliver(msg))
		} else {
			msg, _ := opchildtypes.NewMsgAddValidator("re", l2.Authority, k.Operator.Val(), k.Pub)
			m("add("+k.Operator.Name+")", l2.Deliver(msg))
		}
	}
	nk := NewValKey(777)
	msg, _ := opchildtypes.NewMsgAddValidator("new", l2.Authority, nk.Operator.Val(), nk.Pub)
	m("add(new)", l2.Deliver(msg))
	br := l2.EndBlock()
	out = append(out, fmt.Sprintf("END updates=[%s] err=%v engine=%v", updatesString(br.Updates), br.EndErr, classifyEngineErr(br.EngineErr)))
	if br.EndErr == nil && br.EngineErr == nil {
		_, _ = l2.BeginBlock(1e9)
		br = l2.EndBlock()
		out = append(out, fmt.Sprintf("END updates=[%s] err=%v engine=%v", updatesString(br.Updates), br.EndErr, classifyEngineErr(br.EngineErr)))
	}
	np, _ := l2.K.GetParams(l2.Ctx)
	np.HookMaxGas += 7
	m("update-params", l2.Deliver(opchildtypes.NewMsgUpdateParams(l2.Authority, &np)))
	m("set-bridge-info", l2.Deliver(opchildtypes.NewMsgSetBridgeInfo(ex.String(), e.BridgeInfo("", true))))
	queries()
	out = append(out, "ENGINE "+setString(l2.EngineSet()))
	out = append(out, "EXPORT "+string(l2ExportJSON(l2)))
	return out
}

func (c *c16) l2Histories(n, steps int) {
	run := c.run
	for h := 0; h < n && !run.TooMany(); h++ {
		rng := c.rng.Split()
		g := 1 + rng.Intn(3)
		var gen []ValKey
		for i := 1; i <= g; i++ {
			gen = append(gen, NewValKey(i))
		}
		// the validator world is only the state generator here: its own (C13) clauses go to a scratch run
		scratch := mon.NewRun("C16-scratch", "quick", 0, "exploration")
		// a third of the chains has not registered its bridge info yet (deposits are finalized without it)
		w := newValWorldOpts(scratch, "aux", L2EnvOpts{GenesisVals: gen, MaxValidators: uint32(4 + rng.Intn(4)), Historical: uint32(rng.Intn(4)), NoBridgeInfo: h%3 == 1})
		if rng.Bool() {
			w.e.EnableShadow(rng.U64())
		}
		e := w.e
		l2 := e.L2
		_, _ = l2.BeginBlock(1e9)
		for _, u := range e.Users {
			l2.Fund(u.Addr, sdk.NewCoin("unative", math.NewInt(1000)))
		}
		pool := []sim.Account{e.Executors[0], e.Executors[1], sim.NewAccount("executorC"), sim.NewAccount("executorD")}
		execs := []sim.Account{e.Executors[0], e.Executors[1]}
		feat := map[string]bool{}
		known := map[int]bool{}
		for i := 1; i <= g; i++ {
			known[i] = true
		}
		sample := pick(false, 0, 0)
		_ = sample
		for s := 0; s < steps && !run.TooMany(); s++ {
			switch x := rng.Intn(100); {
			case x < 30:
				to := mon.Pick(rng, e.Users).String()
				if rng.Chance(20) {
					to = "garbage"
					feat["refund"] = true
				}
				l1d := mon.Pick(rng, []string{"uinit", "uusdc", "ueth"})
				res := l2.Deliver(e.DepositMsg(execs[0], e.NextL1Seq(), "l1s", to, l1d, math.NewInt(int64(rng.Intn(10000))), nil))
				w.logf("deposit -> %s", res.Class)
			case x < 45:
				u := mon.Pick(rng, e.Users)
				d := e.L2Denom(mon.Pick(rng, []string{"uinit", "uusdc"}))
				bal := l2.BK.GetBalance(l2.Ctx, u.Addr, d).Amount
				if bal.IsPositive() {
					res := l2.Deliver(opchildtypes.NewMsgInitiateTokenWithdrawal(u.String(), "l1r", sdk.NewCoin(d, math.NewInt(1+int64(rng.Intn(int(minI64(bal.Int64(), 5000))))))))
					w.logf("withdraw -> %s", res.Class)
				}
			case x < 60:
				i := 1 + rng.Intn(5)
				if w.addValidator(NewValKey(i), i, i).Class == sim.OK {
					known[i] = true
					if rng.Chance(25) {
						// removed again before the block ends, and the state exported right there: the record exists
						// (it answers queries, occupies the operator, its key and a validator slot) until the block ends
						if w.removeValidator(NewValKey(i).Operator, i).Class == sim.OK {
							feat["removed_validator"], feat["exported_mid_block_after_add_remove"] = true, true
							var kv []ValKey
							for j := 1; j <= 5; j++ {
								if known[j] {
									kv = append(kv, NewValKey(j))
								}
							}
							c.l2State(w, kv, feat)
						}
					}
				}
			case x < 72:
				i := 1 + rng.Intn(5)
				if w.removeValidator(NewValKey(i).Operator, i).Class == sim.OK {
					feat["removed_validator"] = true
					if rng.Chance(25) {
						// exported before the block ends: the removed validator's record (and the key it holds) is still there
						feat["exported_mid_block_after_remove"] = true
						var kv []ValKey
						for j := 1; j <= 5; j++ {
							if known[j] {
								kv = append(kv, NewValKey(j))
							}
						}
						c.l2State(w, kv, feat)
					}
				}
			case x < 80:
				n := 1 + rng.Intn(3)
				var list []sim.Account
				var ls []string
				for len(list) < n {
					a := mon.Pick(rng, pool)
					dup := false
					for _, y := range list {
						dup = dup || y.String() == a.String()
					}
					if !dup {
						list = append(list, a)
						ls = append(ls, a.String())
					}
				}
				if w.setParams(func(p *opchildtypes.Params) {
					p.BridgeExecutors = ls
					p.HistoricalEntries = uint32(rng.Intn(4))
					p.HookMaxGas = mon.Pick(rng, []uint64{0, 1, 50_000, opchildtypes.DefaultHookMaxGas, 3_000_000}) // 0 = hooks disabled
				}, "rotate executors").Class == sim.OK {
					execs = list
				}
			default:
				if !w.endBlock() {
					// the chain halted (every validator was removed): the history ends. The module's state is still a
					// state somebody may export (to restart the chain with a replacement validator added first)
					if w.m.halted {
						nv := NewValKey(40 + h%5)
						if w.addValidator(nv, 40+h%5, 40+h%5).Class == sim.OK {
							feat["exported_with_empty_bonded_set"] = true
							// the engine model refused the empty set and still holds the last validator; the comparison is
							// between two chains that both start their consensus state anew
							w.e.L2.ResetEngine()
							c.l2State(w, []ValKey{nv}, feat)
						}
					}
					s = steps
					continue
				}
			}
			large := false
			if h%4 == 0 && s == 0 {
				// more bridged denoms than a query page holds (130 deposits of distinct L1 denoms)
				n := 0
				for i := 0; i < 130; i++ {
					for _, ex := range pool {
						if res := l2.Deliver(e.DepositMsg(ex, e.NextL1Seq(), "l1s", e.Users[i%len(e.Users)].String(), fmt.Sprintf("ubig%03d", i), math.NewInt(int64(1+i)), nil)); res.Class == sim.OK {
							n++
							break
						}
					}
				}
				run.CountN("C16.L2.large.denom_pairs", n)
				if n > 100 {
					run.Hit("C16.L2.large_collections_sampled")
					large = true
				}
			}
			// sample this state?
			if large || rng.Chance(6) {
				var kv []ValKey
				for i := 1; i <= 5; i++ {
					if known[i] {
						kv = append(kv, NewValKey(i))
					}
				}
				c.l2State(w, kv, feat)
			}
			if len(w.path) > 120 {
				w.path = append([]string{"... earlier steps omitted (replay by seed)"}, w.path[len(w.path)-60:]...)
			}
		}
	}
}

func (c *c16) l2State(w *valWorld, known []ValKey, feat map[string]bool) {
	run := c.run
	src := w.e
	run.Evaluations++
	exp1 := l2ExportJSON(src.L2)
	dst, ups, err := importL2(src)
	if !run.Check("C16.L2.export_validates_and_imports", err == nil, "c16.l2.import_failed", w.path, "%v", err) {
		return
	}
	exp2 := l2ExportJSON(dst.L2)
	run.Check("C16.L2.export_import_export_identical", bytes.Equal(exp1, exp2), "c16.l2.reexport_differs", append(append([]string(nil), w.path...), firstDiff(string(exp1), string(exp2))), "re-exported L2 genesis differs from the original export")
	// the import's validator updates describe exactly the bonded set (= recorded last powers of the source)
	want := map[string]int64{}
	for _, v := range w.stateValidators() {
		lp, _ := src.L2.K.GetLastValidatorPower(src.L2.Ctx, sdk.ValAddress(sdk.MustAccAddressFromBech32(sdk.AccAddress(valOperBytes(v.operator)).String())))
		if lp > 0 {
			want[v.cons] = lp
		}
	}
	run.Check("C16.L2.import_updates_describe_bonded_set", setString(dst.L2.EngineSet()) == setString(want), "c16.l2.import_updates", append(append([]string(nil), w.path...), "updates: "+ups), "validator updates returned by InitGenesis give the engine {%s}, the source's bonded set is {%s}", setString(dst.L2.EngineSet()), setString(want))
	seed := c.rng.U64()
	a := src.Branch()
	// the original continues from a block boundary exactly like the imported chain would
	ta := l2Probe(a, seed, known)
	tb := l2Probe(dst, seed, known)
	same, diffAt := len(ta) == len(tb), -1
	for i := 0; same && i < len(ta); i++ {
		if ta[i] != tb[i] {
			same, diffAt = false, i
		}
	}
	detail := ""
	if diffAt >= 0 {
		detail = firstDiff(ta[diffAt], tb[diffAt])
	} else if !same {
		detail = fmt.Sprintf("the probe transcripts have different lengths (%d on the original, %d on the re-imported chain)", len(ta), len(tb))
	}
	run.Check("C16.L2.behaviour_identical_after_import", same, "c16.l2.behaviour_differs", append(append([]string(nil), w.path...), detail), "probe step %d answers differently on the re-imported L2: %s", diffAt, detail)
	run.CountN("C16.L2.probe_steps", len(ta))
	for _, l := range ta {
		if len(l) > 2 && l[0] == 'M' && containsStr(l, "-> ok") {
			run.Count("C16.L2.probe_messages_accepted")
		}
	}
	if feat["refund"] && feat["removed_validator"] {
		run.Distinct("L2/" + sim.Digest(src.L2.Dump(opchildtypes.StoreKey)))
	}
}

func valOperBytes(valoper string) []byte {
	v, err := sdk.ValAddressFromBech32(valoper)
	if err != nil {
		panic(err)
	}
	return v
}

func checkC16(run *mon.Run, rng *mon.Rand, thorough bool) {
	run.Rule = "states sampled at random points of random histories (L1: the multi-bridge world with deleted outputs, paid claims, several batch-info generations, role changes; L2: deposits incl. refunds, withdrawals, validator adds/removals across blocks, executor rotations, retention changes). For each: ValidateGenesis(Export), JSON round trip, InitGenesis on a fresh chain (auth+bank genesis travel along), byte comparison of the re-export, engine check of the L2 import's validator updates, and a lock-step probe script of 60-150 messages and queries run on the original and on the re-imported chain whose transcripts (responses, events, query answers, final export) must be identical. Distinct non-trivial = sampled states with >=2 bridges + outputs + paid claims + a deletion (L1) / a refund + a removed validator (L2), by state digest"
	run.Assumptions = []string{"host validator snapshot and per-height history are not part of genesis (as the statement says) and are not compared", "the in-store channel/perm stand-ins belong to other modules and are copied verbatim"}
	for _, c := range []string{"C16.L1.export_validates_and_imports", "C16.L1.export_import_export_identical", "C16.L1.behaviour_identical_after_import",
		"C16.L2.export_validates_and_imports", "C16.L2.export_import_export_identical", "C16.L2.import_updates_describe_bonded_set", "C16.L2.behaviour_identical_after_import"} {
		run.Declare(c, 8)
	}
	run.Declare("C16.L1.large_collections_sampled", 1)
	run.Declare("C16.L2.large_collections_sampled", 1)
	c := &c16{run: run, rng: rng}
	// L1: sample states along world histories
	hist := pick(thorough, 6, 80)
	for h := 0; h < hist && !run.TooMany(); h++ {
		r := rng.Split()
		cfg := WorldCfg{Bridges: 2 + r.Intn(2), Steps: 60, Periods: []time.Duration{2 * time.Second, 5 * time.Second, time.Second}}
		w := newL1World(run, r, MonSet{}, cfg)
		for k := 0; k < pick(thorough, 5, 8) && !run.TooMany(); k++ {
			w.Run() // 60 more steps
			c.l1State(w, fmt.Sprintf("history %d sample %d", h, k))
		}
		if h == 0 {
			run.Sample(map[string]interface{}{"l1_history_tail": tail(w.log, 15)})
		}
	}
	c.l1Large()
	c.l2Histories(pick(thorough, 6, 80), pick(thorough, 120, 250))
	run.Sample(map[string]interface{}{"l2_probe_script": "queries; deposit next/stale/ahead/refund/conflicting-base; withdrawals; transfer; remove/add known validators; add new; 2 block ends; update-params; set-bridge-info; queries; engine set; export"})
}

func containsStr(s, sub string) bool { return strings.Contains(s, sub) }

// l1Large: collections larger than a query page (100 entries): one bridge with 130 token pairs, 130 batch-info
// generations and well over a hundred outputs must survive the round trip like small ones.
func (c *c16) l1Large() {
	run := c.run
	r := c.rng.Split()
	w := newL1World(run, r, MonSet{}, WorldCfg{Bridges: 2, Steps: 40, Periods: []time.Duration{2 * time.Second, time.Hour}})
	w.Run()
	env := w.env
	user := env.Users[1]
	pairs, batches := 0, 0
	for i := 0; i < 130; i++ {
		// an empty deposit registers the token pair of its denom (and needs no balance)
		if res := env.Deposit(user, 1, "l2recipient", fmt.Sprintf("ularge%03d", i), math.ZeroInt(), nil); res.Class == sim.OK {
			pairs++
		}
		bi := ophosttypes.BatchInfo{Submitter: sim.NewAccount(fmt.Sprintf("submitter%03d", i)).String(), ChainType: ophosttypes.BatchInfo_CHAIN_TYPE_CELESTIA}
		if i%2 == 0 {
			bi.ChainType = ophosttypes.BatchInfo_CHAIN_TYPE_INITIA
		}
		if res := env.L1.Deliver(ophosttypes.NewMsgUpdateBatchInfo(env.Bridges[1].Proposer.String(), 1, bi)); res.Class == sim.OK {
			batches++
		}
	}
	count := func() (n int) {
		for _, b := range w.br {
			n += len(b.outputs)
		}
		return n
	}
	for i := 0; i < 3000 && count() < 240; i++ {
		w.opPropose() // on bridge 1 or 2; some proposals are deliberately invalid
	}
	run.CountN("C16.L1.large.token_pairs", pairs)
	run.CountN("C16.L1.large.batch_infos", batches)
	nout := count()
	run.CountN("C16.L1.large.outputs", nout)
	if !(pairs > 100 && batches > 100 && nout > 200) {
		return // not built (a refused setup step): the clause below stays vacuous and the run inconclusive
	}
	run.Hit("C16.L1.large_collections_sampled")
	c.l1State(w, "large collections (130 token pairs, 130 batch infos, >200 outputs)")
	w.Run()
	c.l1State(w, "large collections, 40 steps later")
}
