package props

import (
	"fmt"
	"math/big"
	"strings"

	"cosmossdk.io/math"
	codectypes "github.com/cosmos/cosmos-sdk/codec/types"
	sdk "github.com/cosmos/cosmos-sdk/types"
	"github.com/cosmos/cosmos-sdk/x/authz"
	authtypes "github.com/cosmos/cosmos-sdk/x/auth/types"
	banktypes "github.com/cosmos/cosmos-sdk/x/bank/types"

	opchildante "github.com/initia-labs/OPinit/x/opchild/ante"
	"github.com/initia-labs/OPinit/x/opchild/lanes"
	opchildtypes "github.com/initia-labs/OPinit/x/opchild/types"

	"verifharness/mon"
	"verifharness/sim"
)

func init() { register("C20", "exploration", checkC20) }

type c20 struct {
	run *mon.Run
	rng *mon.Rand
	e   *L2Env
}

var c20Denoms = []string{"uinit", "uusdc", "ueth", "ubtc"}
var c20PriceStrings = []string{"", "0.000000000000000001", "0.15", "0.333333333333333333", "0.666666666666666667", "1", "2.5", "1000000", "0.000001"}

func decToRat(d math.LegacyDec) *big.Rat {
	return new(big.Rat).SetFrac(d.BigInt(), new(big.Int).Exp(big.NewInt(10), big.NewInt(18), nil))
}

func ceilRat(r *big.Rat) *big.Int {
	q, m := new(big.Int).QuoRem(r.Num(), r.Denom(), new(big.Int))
	if m.Sign() > 0 {
		q.Add(q, big.NewInt(1))
	}
	return q
}

func (c *c20) buildTx(msgs []sdk.Msg, fee sdk.Coins, gas uint64, payer, granter sdk.AccAddress) sdk.Tx {
	b := c.e.L2.Enc.TxConfig.NewTxBuilder()
	if err := b.SetMsgs(msgs...); err != nil {
		panic(err)
	}
	b.SetFeeAmount(fee)
	b.SetGasLimit(gas)
	if payer != nil {
		b.SetFeePayer(payer)
	}
	if granter != nil {
		b.SetFeeGranter(granter)
	}
	return b.GetTx()
}

// ---------- fee floor ----------

func (c *c20) feeFloor(n int) {
	run := c.run
	rng := c.rng
	l2 := c.e.L2
	checker := opchildante.NewMempoolFeeChecker(*l2.K)
	for i := 0; i < n && !run.TooMany(); i++ {
		// chain prices through the real params path (validated, sorted)
		nd := 1 + rng.Intn(len(c20Denoms))
		var chainParts, nodeParts []string
		chainP, nodeP := map[string]math.LegacyDec{}, map[string]math.LegacyDec{}
		allAbsent := rng.Chance(8)
		rawZeros := rng.Chance(15)
		noChain := rawZeros && rng.Chance(70) // explicit zero entries only survive when no chain price is merged in
		for _, d := range c20Denoms[:nd] {
			if allAbsent {
				break
			}
			if s := mon.Pick(rng, c20PriceStrings); s != "" && !noChain {
				chainParts = append(chainParts, s+d)
				chainP[d] = math.LegacyMustNewDecFromStr(s)
			}
			if s := mon.Pick(rng, c20PriceStrings); s != "" {
				nodeParts = append(nodeParts, s+d)
				nodeP[d] = math.LegacyMustNewDecFromStr(s)
			}
		}
		chainCoins, err := sdk.ParseDecCoins(strings.Join(chainParts, ","))
		if err != nil {
			panic(err)
		}
		nodeCoins, err := sdk.ParseDecCoins(strings.Join(nodeParts, ","))
		if err != nil {
			panic(err)
		}
		if rawZeros {
			// a price vector set programmatically may carry explicit zero entries next to positive ones (the repository's
			// own ante test builds such vectors); a zero floor is no floor
			raw := sdk.DecCoins{}
			for _, d := range c20Denoms[:nd] {
				if v, ok := nodeP[d]; ok {
					raw = append(raw, sdk.DecCoin{Denom: d, Amount: v})
				} else if rng.Bool() {
					raw = append(raw, sdk.DecCoin{Denom: d, Amount: math.LegacyZeroDec()})
				}
			}
			nodeCoins = raw.Sort()
		}
		br := c.e.Branch()
		p, _ := br.L2.K.GetParams(br.L2.Ctx)
		p.MinGasPrices = chainCoins
		if res := br.L2.Deliver(opchildtypes.NewMsgUpdateParams(br.L2.Authority, &p)); res.Class != sim.OK {
			run.Count("C20.chain_price_vector_refused")
			continue
		}
		gas := mon.Pick(rng, []uint64{0, 1, 7, 200_000, 1 << 40, 1<<63 - 1, 1 << 63, 1<<63 + 12345, 1<<64 - 1, uint64(1 + rng.Intn(1_000_000))})
		// floors in exact rationals
		floor := map[string]*big.Rat{}
		anyPositive := false
		for _, d := range c20Denoms {
			f := new(big.Rat)
			if v, ok := chainP[d]; ok {
				f = decToRat(v)
			}
			if v, ok := nodeP[d]; ok && decToRat(v).Cmp(f) > 0 {
				f = decToRat(v)
			}
			floor[d] = f
			if f.Sign() > 0 {
				anyPositive = true
			}
		}
		req := map[string]*big.Int{}
		for d, f := range floor {
			req[d] = ceilRat(new(big.Rat).Mul(f, new(big.Rat).SetInt(new(big.Int).SetUint64(gas))))
		}
		// fee: around the requirement of one denom, random for the others
		var fee sdk.Coins
		for _, d := range c20Denoms[:nd] {
			var amt *big.Int
			switch rng.Intn(6) {
			case 0:
				continue
			case 1:
				amt = new(big.Int).Sub(req[d], big.NewInt(1))
			case 2:
				amt = new(big.Int).Set(req[d])
			case 3:
				amt = new(big.Int).Add(req[d], big.NewInt(1))
			case 4:
				amt = big.NewInt(int64(rng.Intn(1000)))
			default:
				amt = new(big.Int).Quo(req[d], big.NewInt(2))
			}
			if amt.Sign() <= 0 {
				continue
			}
			fee = fee.Add(sdk.NewCoin(d, math.NewIntFromBigInt(amt)))
		}
		tx := c.buildTx([]sdk.Msg{banktypes.NewMsgSend(c.e.Users[0].Addr, c.e.Users[1].Addr, sdk.NewCoins(sdk.NewCoin("uinit", math.NewInt(1))))}, fee, gas, nil, nil)
		// the statement's admission condition
		cond := false
		for _, d := range c20Denoms {
			if floor[d].Sign() > 0 && fee.AmountOf(d).BigInt().Cmp(req[d]) >= 0 {
				cond = true
			}
		}
		for _, mode := range []string{"check", "recheck", "deliver", "simulate-deliver"} {
			// the floor does not depend on where the chain is: before the first block (height 0), at it, far beyond it
			ctx := br.L2.Ctx.WithMinGasPrices(nodeCoins).WithBlockHeight(mon.Pick(rng, []int64{0, 1, 2, br.L2.Ctx.BlockHeight(), 1 << 40}))
			switch mode {
			case "check":
				ctx = ctx.WithIsCheckTx(true)
			case "recheck":
				ctx = ctx.WithIsCheckTx(true).WithIsReCheckTx(true)
			default:
				ctx = ctx.WithIsCheckTx(false)
			}
			_, _, err := func() (c sdk.Coins, p int64, err error) {
				defer func() {
					if r := recover(); r != nil {
						err = fmt.Errorf("panic: %v", r)
					}
				}()
				return checker.CheckTxFeeWithMinGasPrices(ctx, tx)
			}()
			run.Evaluations++
			admitted := err == nil
			tr := []string{fmt.Sprintf("mode=%s node=[%s] chain=[%s] gas=%d fee=[%s] required=%v -> admitted=%v err=%v", mode, nodeCoins, chainCoins, gas, fee, req, admitted, err)}
			checking := mode == "check" || mode == "recheck"
			if !checking {
				run.Check("C20.fee.nothing_enforced_outside_checking", admitted, "c20.fee.enforced_outside_check", tr, "fee floor enforced in mode %s", mode)
				continue
			}
			if !anyPositive {
				run.Check("C20.fee.any_fee_passes_when_floors_zero", admitted, "c20.fee.zero_floor_rejected", tr, "fee rejected although all floors are zero")
				continue
			}
			if admitted {
				run.Check("C20.fee.admitted_only_if_some_floor_met", cond, "c20.fee.underpriced_admitted", tr, "transaction admitted although no denom with a positive floor is paid at gas x max(node, chain) rounded up")
			}
			if gas > 0 && cond {
				run.Check("C20.fee.floor_met_is_admitted", admitted, "c20.fee.sufficient_fee_rejected", tr, "fee meets the floor of a denom but the transaction was rejected: %v", err)
			}
			if gas == 0 {
				run.Count("C20.fee.gas_zero_cases")
			}
			// which side of the line, for which denom count
			run.Distinct(fmt.Sprintf("fee/%s/nd%d/gas%s/cond=%v/admitted=%v", mode, nd, gasClass(gas), cond, admitted))
		}
	}
}

func gasClass(g uint64) string {
	switch {
	case g == 0:
		return "0"
	case g < 10:
		return "tiny"
	case g < 1<<32:
		return "normal"
	}
	return "huge"
}

// ---------- lanes ----------

func (c *c20) oracleMsg() sdk.Msg {
	return opchildtypes.NewMsgUpdateOracle(c.e.Executors[0].String(), 5, []byte{1, 2, 3})
}

func (c *c20) exec(inner ...sdk.Msg) sdk.Msg {
	m := authz.NewMsgExec(c.e.Users[0].Addr, inner)
	return &m
}

func (c *c20) systemLane() {
	run := c.run
	h := lanes.SystemLaneMatchHandler()
	send := banktypes.NewMsgSend(c.e.Users[0].Addr, c.e.Users[1].Addr, sdk.NewCoins(sdk.NewCoin("uinit", math.NewInt(1))))
	dep := c.e.DepositMsg(c.e.Executors[0], 1, "f", c.e.Users[0].String(), "uinit", math.NewInt(1), nil)
	type shape struct {
		name string
		msgs []sdk.Msg
		want bool
	}
	badAny := &authz.MsgExec{Grantee: c.e.Users[0].String(), Msgs: []*codectypes.Any{{TypeUrl: "/does.not.Exist", Value: []byte{1}}}}
	shapes := []shape{
		{"empty", nil, false},
		{"oracle", []sdk.Msg{c.oracleMsg()}, true},
		{"oracle,oracle", []sdk.Msg{c.oracleMsg(), c.oracleMsg()}, false},
		{"oracle,send", []sdk.Msg{c.oracleMsg(), send}, false},
		{"send,oracle", []sdk.Msg{send, c.oracleMsg()}, false},
		{"send", []sdk.Msg{send}, false},
		{"deposit", []sdk.Msg{dep}, false},
		{"exec(oracle)", []sdk.Msg{c.exec(c.oracleMsg())}, true},
		{"exec(oracle,oracle)", []sdk.Msg{c.exec(c.oracleMsg(), c.oracleMsg())}, false},
		{"exec(oracle,send)", []sdk.Msg{c.exec(c.oracleMsg(), send)}, false},
		{"exec(send)", []sdk.Msg{c.exec(send)}, false},
		{"exec()", []sdk.Msg{c.exec()}, false},
		{"exec(exec(oracle))", []sdk.Msg{c.exec(c.exec(c.oracleMsg()))}, false},
		{"exec(oracle),oracle", []sdk.Msg{c.exec(c.oracleMsg()), c.oracleMsg()}, false},
		{"exec(oracle),exec(oracle)", []sdk.Msg{c.exec(c.oracleMsg()), c.exec(c.oracleMsg())}, false},
		{"oracle,oracle,oracle", []sdk.Msg{c.oracleMsg(), c.oracleMsg(), c.oracleMsg()}, false},
		{"exec(undecodable any)", []sdk.Msg{badAny}, false},
	}
	for _, s := range shapes {
		tx := c.buildTx(s.msgs, nil, 100000, nil, nil)
		got := func() (b bool) {
			defer func() {
				if r := recover(); r != nil {
					b = false
				}
			}()
			return h(c.e.L2.Ctx, tx)
		}()
		run.Evaluations++
		run.Check("C20.system_lane_exactly_one_oracle_update", got == s.want, "c20.system_lane."+s.name, []string{s.name}, "system lane matcher answered %v for message shape [%s], expected %v", got, s.name, s.want)
		run.Distinct("system/" + s.name)
	}
	// generated shapes
	for i := 0; i < 300; i++ {
		n := c.rng.Intn(4)
		var msgs []sdk.Msg
		var desc []string
		oracleAtTop, wrappedOnce := 0, 0
		for k := 0; k < n; k++ {
			switch c.rng.Intn(5) {
			case 0:
				msgs, desc = append(msgs, c.oracleMsg()), append(desc, "oracle")
				oracleAtTop++
			case 1:
				msgs, desc = append(msgs, send), append(desc, "send")
			case 2:
				msgs, desc = append(msgs, c.exec(c.oracleMsg())), append(desc, "exec(oracle)")
				wrappedOnce++
			case 3:
				msgs, desc = append(msgs, c.exec(c.exec(c.oracleMsg()))), append(desc, "exec(exec(oracle))")
			default:
				msgs, desc = append(msgs, c.exec(c.oracleMsg(), send)), append(desc, "exec(oracle,send)")
			}
		}
		want := n == 1 && (oracleAtTop == 1 || wrappedOnce == 1)
		tx := c.buildTx(msgs, nil, 1, nil, nil)
		got := h(c.e.L2.Ctx, tx)
		run.Evaluations++
		run.Check("C20.system_lane_exactly_one_oracle_update", got == want, "c20.system_lane.generated", desc, "system lane matcher answered %v for [%s], expected %v", got, strings.Join(desc, ","), want)
	}
}

func (c *c20) freeLane() {
	run := c.run
	l2 := c.e.L2
	accts := []sim.Account{c.e.Users[0], c.e.Users[1], c.e.Users[2], c.e.Users[3]}
	// one matcher for the whole run, as in a node (it lives as long as the process); the whitelist changes under it,
	// mostly between calls whose contexts carry the same block height
	h := lanes.NewFreeLaneMatchHandler(l2.AK.AddressCodec(), l2.K).MatchHandler()
	for i := 0; i < 400 && !run.TooMany(); i++ {
		nw := c.rng.Intn(4)
		var wl []string
		wlSet := map[string]bool{}
		for k := 0; k < nw; k++ {
			a := mon.Pick(c.rng, accts)
			if !wlSet[a.String()] {
				wl = append(wl, a.String())
				wlSet[a.String()] = true
			}
		}
		br := c.e.Branch()
		p, _ := br.L2.K.GetParams(br.L2.Ctx)
		p.FeeWhitelist = wl
		if res := br.L2.Deliver(opchildtypes.NewMsgUpdateParams(br.L2.Authority, &p)); res.Class != sim.OK {
			panic(res.ErrString())
		}
		if c.rng.Chance(20) {
			br.L2.NextBlock(1e9)
		}
		signer := mon.Pick(c.rng, accts)
		var payer, granter sdk.AccAddress
		payerStr := signer.String() // default payer = first signer
		if c.rng.Bool() {
			pa := mon.Pick(c.rng, accts)
			payer, payerStr = pa.Addr, pa.String()
		}
		granterStr := ""
		if c.rng.Bool() {
			ga := mon.Pick(c.rng, accts)
			granter, granterStr = ga.Addr, ga.String()
		}
		tx := c.buildTx([]sdk.Msg{banktypes.NewMsgSend(signer.Addr, c.e.Users[5].Addr, sdk.NewCoins(sdk.NewCoin("uinit", math.NewInt(1))))}, nil, 1000, payer, granter)
		want := wlSet[payerStr] || (granterStr != "" && wlSet[granterStr])
		got := h(br.L2.Ctx, tx)
		run.Evaluations++
		tr := []string{fmt.Sprintf("whitelist=%d entries payer=%s(on list %v) granter=%q(on list %v) -> %v", len(wl), short(payerStr), wlSet[payerStr], short(granterStr), wlSet[granterStr], got)}
		run.Check("C20.free_lane_payer_or_granter_whitelisted", got == want, "c20.free_lane", tr, "free lane matcher answered %v, expected %v", got, want)
		run.Distinct(fmt.Sprintf("free/wl%d/payer=%v/granter=%v/explicitpayer=%v", len(wl), wlSet[payerStr], granterStr != "" && wlSet[granterStr], payer != nil))
	}
}

// ---------- redundant relay filter ----------

func (c *c20) redundant(n int) {
	run := c.run
	e := c.e.Branch()
	// process a few deposits so that stale ones exist
	for k := 0; k < 5; k++ {
		if r := e.L2.Deliver(e.DepositMsg(e.Executors[0], e.NextL1Seq(), "l1", e.Users[0].String(), "uinit", math.NewInt(10), nil)); r.Class != sim.OK {
			panic(r.ErrString())
		}
	}
	dec := opchildante.NewRedundantBridgeDecorator(e.L2.K)
	send := banktypes.NewMsgSend(e.Users[0].Addr, e.Users[1].Addr, sdk.NewCoins(sdk.NewCoin("uinit", math.NewInt(1))))
	for i := 0; i < n && !run.TooMany(); i++ {
		next := e.NextL1Seq()
		cnt := 1 + c.rng.Intn(4)
		var msgs []sdk.Msg
		var desc []string
		allDeposits, allStale, fresh, ahead := true, true, 0, false
		cur := next
		for k := 0; k < cnt; k++ {
			switch c.rng.Intn(5) {
			case 0, 1:
				s := 1 + uint64(c.rng.Intn(int(next-1)))
				msgs, desc = append(msgs, e.DepositMsg(e.Executors[0], s, "l1", e.Users[0].String(), "uinit", math.NewInt(10), nil)), append(desc, fmt.Sprintf("stale(%d)", s))
			case 2:
				// a fresh deposit is fresh whether it ends credited or bounced (unusable recipient, blocked module account,
				// hook data that cannot run)
				to := mon.Pick(c.rng, []string{e.Users[0].String(), e.Users[0].String(), "garbage", authtypes.NewModuleAddress(authtypes.FeeCollectorName).String()})
				var data []byte
				if c.rng.Chance(30) {
					data = c.rng.Bytes(1 + c.rng.Intn(30))
				}
				msgs, desc = append(msgs, e.DepositMsg(e.Executors[0], cur, "l1", to, "uinit", math.NewInt(10), data)), append(desc, fmt.Sprintf("fresh(%d to %s data %d bytes)", cur, short(to), len(data)))
				cur++
				fresh++
				allStale = false
			case 3:
				msgs, desc = append(msgs, send), append(desc, "send")
				allDeposits = false
			default:
				msgs, desc = append(msgs, e.DepositMsg(e.Executors[0], cur+3, "l1", e.Users[0].String(), "uinit", math.NewInt(10), nil)), append(desc, fmt.Sprintf("ahead(%d)", cur+3))
				ahead = true
				allStale = false
			}
		}
		tx := c.buildTx(msgs, nil, 1000000, nil, nil)
		for _, mode := range []string{"check", "recheck", "deliver", "check-simulate"} {
			ctx, _ := e.L2.Ctx.CacheContext()
			ctx = ctx.WithBlockHeight(mon.Pick(c.rng, []int64{0, 1, e.L2.Ctx.BlockHeight(), e.L2.Ctx.BlockHeight(), 1 << 40}))
			simulate := false
			switch mode {
			case "check":
				ctx = ctx.WithIsCheckTx(true)
			case "recheck":
				ctx = ctx.WithIsCheckTx(true).WithIsReCheckTx(true)
			case "check-simulate":
				ctx = ctx.WithIsCheckTx(true)
				simulate = true
			default:
				ctx = ctx.WithIsCheckTx(false)
			}
			nextCalled := false
			_, err := dec.AnteHandle(ctx, tx, simulate, func(ctx sdk.Context, tx sdk.Tx, simulate bool) (sdk.Context, error) {
				nextCalled = true
				return ctx, nil
			})
			run.Evaluations++
			passed := err == nil && nextCalled
			tr := []string{fmt.Sprintf("mode=%s next=%d tx=[%s] -> passed=%v err=%v", mode, next, strings.Join(desc, ","), passed, err)}
			checking := (mode == "check" || mode == "recheck")
			if !checking {
				run.Check("C20.redundancy_only_at_check_time", passed, "c20.redundant.enforced_outside_check", tr, "redundant-relay filter rejected a transaction in mode %s", mode)
				continue
			}
			if allDeposits && allStale {
				run.Check("C20.redundant_only_tx_rejected", !passed, "c20.redundant.stale_only_admitted", tr, "a transaction made only of already processed deposit finalizations passed the check")
			}
			if fresh > 0 && !ahead {
				run.Check("C20.tx_with_fresh_deposit_passes", passed, "c20.redundant.fresh_rejected", tr, "a transaction containing a fresh deposit finalization was rejected as redundant: %v", err)
			}
			run.Distinct(fmt.Sprintf("redundant/%s/alldep=%v/allstale=%v/fresh=%d/ahead=%v/%v", mode, allDeposits, allStale, fresh, ahead, passed))
		}
	}
}

func checkC20(run *mon.Run, rng *mon.Rand, thorough bool) {
	run.Rule = "(a) fee floor: generated node price vectors (through sdk.ParseDecCoins) and chain price vectors (through MsgUpdateParams/Params.Validate) over 1-4 denoms with prices {absent, 1e-18, 0.15, 1/3, 2/3, 1, 2.5, 1e6, 1e-6}, gas {0,1,7,2e5,2^40,2^63-1,2^63,2^63+12345,2^64-1,random}, fees one below / exactly at / one above / half of ceil(max(node,chain) x gas) per denom, in CheckTx/ReCheckTx/DeliverTx modes, against an oracle in exact rationals (two-sided for gas>0, 'only if' for gas=0); (b) system-lane matcher on 17 fixed + 300 generated message shapes with nesting depth 0..2; (c) free-lane matcher on generated whitelists x payer/granter combinations; (d) redundant-relay filter on generated mixes of stale / fresh / ahead deposit finalizations and other messages in check, recheck, deliver and simulate modes. Distinct non-trivial = cells of (mode, denoms, gas class, condition, verdict) etc."
	run.Assumptions = []string{"for gas = 0 only the stated 'only if' direction is asserted (the implementation's IsAnyGTE ignores zero requirements)", "mixed transactions (stale deposits + other messages) are outside the statement and only counted"}
	for _, cl := range []string{"C20.fee.nothing_enforced_outside_checking", "C20.fee.any_fee_passes_when_floors_zero", "C20.fee.admitted_only_if_some_floor_met", "C20.fee.floor_met_is_admitted",
		"C20.system_lane_exactly_one_oracle_update", "C20.free_lane_payer_or_granter_whitelisted", "C20.redundancy_only_at_check_time", "C20.redundant_only_tx_rejected", "C20.tx_with_fresh_deposit_passes"} {
		run.Declare(cl, 10)
	}
	c := &c20{run: run, rng: rng, e: newL2Env(L2EnvOpts{CheckTx: false})}
	c.feeFloor(pick(thorough, 4000, 1500000))
	c.systemLane()
	c.freeLane()
	c.redundant(pick(thorough, 600, 120000))
	run.Sample(map[string]interface{}{"fee_case": "node=[0.15uinit] chain=[0.333333333333333333uinit,1uusdc] gas=7 fee=[3uinit] required={uinit:3,uusdc:7} mode=check -> admitted"})
	run.Sample(map[string]interface{}{"lane_shape": "exec(exec(oracle)) -> not system"})
}
