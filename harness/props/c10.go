package props

import (
	"time"

	"verifharness/mon"
)

func init() { register("C10", "exploration", checkC10) }

func checkC10(run *mon.Run, rng *mon.Rand, thorough bool) {
	run.Rule = "seeded random histories interleaving MsgCreateBridge and MsgInitiateTokenDeposit over bridge ids 1..7 of which only some exist yet; per-bridge sequence model, event/request/balance comparison and token-pair derivation checked after every step. Distinct non-trivial = (bridge id, exists, zero amount, has payload) classes of accepted deposits"
	run.Assumptions = []string{"events are read by the exported type/attribute constants, as an executor would", "L2 denom derivation compared with the independent ref implementation"}
	for _, c := range []string{"C10.sequence_gap_free", "C10.exactly_one_event", "C10.event_faithful", "C10.next_sequence_query", "C10.token_pairs_fixed", "C10.real_bridges_only", "C10.fresh_bridge_clean", "C10.nothing_prerecorded", "C10.announced_amount_was_moved"} {
		run.Declare(c, 20)
	}
	hist := pick(thorough, 24, 300)
	steps := pick(thorough, 200, 500)
	for h := 0; h < hist && !run.TooMany(); h++ {
		r := rng.Split()
		cfg := WorldCfg{Bridges: 1 + r.Intn(3), Steps: steps, MaxIDs: 7, Periods: []time.Duration{time.Second, 5 * time.Second},
			Weights: map[string]int{"create": 5, "deposit": 60, "send": 6, "propose": 4, "finalize": 4, "advance": 6, "role": 3, "params": 2}}
		w := newL1World(run, r, MonSet{C10: true}, cfg)
		w.Run()
		if h == 0 {
			n := len(w.log)
			if n > 20 {
				n = 20
			}
			run.Sample(map[string]interface{}{"history": 0, "first_steps": w.log[:n]})
		}
	}
	run.Extra["histories"] = hist
}
