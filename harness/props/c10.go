package props

import (
	"context"
	"fmt"
	"strconv"
	"time"

	"cosmossdk.io/math"
	sdk "github.com/cosmos/cosmos-sdk/types"

	ophosttypes "github.com/initia-labs/OPinit/x/ophost/types"

	"verifharness/mon"
	"verifharness/ref"
	"verifharness/sim"
)

// c10Reentrant: while a deposit's coins are being moved into the escrow, code running inside that transfer (a send
// restriction, a transfer hook of the host chain) makes another deposit into the same bridge. Both are deposits in their
// own right: each gets its own consecutive sequence number, returned and announced once.
// c10DrainKeepsPair: the denom pair registered by the first deposit of a denom stays registered when every unit of it
// has left the escrow again ("never changes" has no exception for an empty escrow).
func c10DrainKeepsPair(run *mon.Run, rng *mon.Rand) {
	run.Declare("C10.token_pair_survives_drained_escrow", 2)
	for _, parts := range []int{1, 3} {
		env := newL1Env(1, []time.Duration{5 * time.Second})
		user := env.Users[1]
		if r := env.Deposit(env.Users[0], 1, "l2", "uusdc", math.NewInt(300), nil); r.Class != sim.OK {
			panic(r.ErrString())
		}
		var ws []Withdrawal
		for i := 0; i < parts; i++ {
			ws = append(ws, Withdrawal{1, uint64(i + 1), "l2sender", user.String(), "uusdc", uint64(300 / parts)})
		}
		o := env.ProposeTree(1, ws, 0, rng)
		env.L1.NextBlock(6 * time.Second)
		var tr []string
		for i := range ws {
			res := env.L1.Deliver(o.Claim(i, user.String()))
			esc := env.L1.BK.GetBalance(env.L1.Ctx, ophosttypes.BridgeAddress(1), "uusdc").Amount
			pair, err := env.L1.Q.TokenPairByL1Denom(env.L1.Ctx, &ophosttypes.QueryTokenPairByL1DenomRequest{BridgeId: 1, L1Denom: "uusdc"})
			run.Evaluations++
			tr = append(tr, fmt.Sprintf("claim %d of %d -> %s; escrow holds %suusdc; TokenPairByL1Denom -> %v err=%v", i+1, parts, res.Class, esc, pair, err))
			byL2, err2 := env.L1.Q.TokenPairByL2Denom(env.L1.Ctx, &ophosttypes.QueryTokenPairByL2DenomRequest{BridgeId: 1, L2Denom: ref.L2Denom(1, "uusdc")})
			list, err3 := env.L1.Q.TokenPairs(env.L1.Ctx, &ophosttypes.QueryTokenPairsRequest{BridgeId: 1})
			listed := err3 == nil && len(list.TokenPairs) == 1 && list.TokenPairs[0].L1Denom == "uusdc" && list.TokenPairs[0].L2Denom == ref.L2Denom(1, "uusdc")
			tr = append(tr, fmt.Sprintf("TokenPairByL2Denom -> %v err=%v; TokenPairs -> %v err=%v", byL2, err2, list, err3))
			run.Check("C10.token_pair_survives_drained_escrow", res.Class == sim.OK && err == nil && pair.TokenPair.L2Denom == ref.L2Denom(1, "uusdc") && err2 == nil && byL2.TokenPair.L1Denom == "uusdc" && listed, "c10.token_pair_lost", tr, "after withdrawals left %s uusdc in the escrow the pair registered by the first deposit reads %v (err %v)", esc, pair, err)
		}
		run.Distinct(fmt.Sprintf("C10/drain/%d", parts))
	}
}

func c10Reentrant(run *mon.Run) {
	run.Declare("C10.reentrant_deposits_get_own_sequences", 3)
	for _, sameUser := range []bool{true, false} {
		for _, depth := range []int{1, 2} {
			onSend := new(func(ctx context.Context, from, to sdk.AccAddress, amt sdk.Coins))
			env := newL1EnvOpts(2, []time.Duration{5 * time.Second, 5 * time.Second}, sim.L1Opts{WrapBank: func(b ophosttypes.BankKeeper) ophosttypes.BankKeeper {
				return sim.HookedBank{BankKeeper: b, OnSend: onSend}
			}})
			outer, inner := env.Users[1], env.Users[2]
			if sameUser {
				inner = outer
			}
			var innerSeqs []uint64
			var innerEvents []string
			level := 0
			*onSend = func(ctx context.Context, from, to sdk.AccAddress, amt sdk.Coins) {
				if level >= depth || !to.Equals(ophosttypes.BridgeAddress(1)) {
					return
				}
				level++
				defer func() { level--; _ = recover() }()
				m := ophosttypes.NewMsgInitiateTokenDeposit(inner.String(), 1, "l2inner", sdk.NewCoin("uinit", math.NewInt(7)), nil)
				sctx := sdk.UnwrapSDKContext(ctx).WithEventManager(sdk.NewEventManager())
				if res, err := env.L1.Router.Handler(m)(sctx, m); err == nil {
					for _, any := range res.MsgResponses {
						if r, ok := any.GetCachedValue().(*ophosttypes.MsgInitiateTokenDepositResponse); ok {
							innerSeqs = append(innerSeqs, r.Sequence)
						}
					}
					for _, ev := range res.Events {
						if ev.Type == ophosttypes.EventTypeInitiateTokenDeposit {
							v, _ := sim.Attr(ev, ophosttypes.AttributeKeyL1Sequence)
							innerEvents = append(innerEvents, v)
						}
					}
				}
			}
			res := env.L1.Deliver(ophosttypes.NewMsgInitiateTokenDeposit(outer.String(), 1, "l2outer", sdk.NewCoin("uinit", math.NewInt(100)), nil))
			*onSend = nil
			run.Evaluations++
			var outerSeq uint64
			if res.Class == sim.OK {
				outerSeq = res.Resp().(*ophosttypes.MsgInitiateTokenDepositResponse).Sequence
			}
			next, _ := env.L1.Q.NextL1Sequence(env.L1.Ctx, &ophosttypes.QueryNextL1SequenceRequest{BridgeId: 1})
			seen := map[uint64]int{outerSeq: 1}
			for _, s := range innerSeqs {
				seen[s]++
			}
			ok := res.Class == sim.OK && len(innerSeqs) == depth && next != nil && next.NextL1Sequence == uint64(depth)+2
			for s := uint64(1); s <= uint64(depth)+1; s++ {
				ok = ok && seen[s] == 1
			}
			for i, s := range innerSeqs {
				ok = ok && i < len(innerEvents) && innerEvents[i] == strconv.FormatUint(s, 10)
			}
			tr := []string{fmt.Sprintf("deposit by %s into bridge 1 -> %s sequence %d; %d deposit(s) made from inside its escrow transfer returned sequences %v (announced %v); next sequence query %v", outer.Name, res.Class, outerSeq, depth, innerSeqs, innerEvents, next)}
			run.Check("C10.reentrant_deposits_get_own_sequences", ok, "c10.reentrant_sequence_shared", tr, "deposits made while another deposit's transfer is in flight do not all carry their own consecutive sequence: outer %d, inner %v, next %v", outerSeq, innerSeqs, next)
			run.Distinct(fmt.Sprintf("C10/reentrant/sameuser=%v/depth=%d", sameUser, depth))
		}
	}
}

func init() { register("C10", "exploration", checkC10) }

func checkC10(run *mon.Run, rng *mon.Rand, thorough bool) {
	run.Rule = "seeded random histories interleaving MsgCreateBridge and MsgInitiateTokenDeposit over bridge ids 1..7 of which only some exist yet; per-bridge sequence model, event/request/balance comparison and token-pair derivation checked after every step. Distinct non-trivial = (bridge id, exists, zero amount, has payload) classes of accepted deposits"
	run.Assumptions = []string{"events are read by the exported type/attribute constants, as an executor would", "L2 denom derivation compared with the independent ref implementation"}
	for _, c := range []string{"C10.sequence_gap_free", "C10.exactly_one_event", "C10.event_faithful", "C10.next_sequence_query", "C10.token_pairs_fixed", "C10.real_bridges_only", "C10.fresh_bridge_clean", "C10.nothing_prerecorded", "C10.announced_amount_was_moved"} {
		run.Declare(c, 20)
	}
	c10Reentrant(run)
	c10DrainKeepsPair(run, rng)
	hist := pick(thorough, 24, 300)
	steps := pick(thorough, 200, 500)
	for h := 0; h < hist && !run.TooMany(); h++ {
		r := rng.Split()
		cfg := WorldCfg{Bridges: 1 + r.Intn(3), Steps: steps, MaxIDs: 7, Periods: []time.Duration{time.Second, 5 * time.Second},
			Weights: map[string]int{"create": 5, "deposit": 60, "send": 6, "propose": 4, "finalize": 4, "advance": 6, "role": 3, "params": 2}}
		w := newL1World(run, r, MonSet{C10: true}, cfg)
		w.Run()
		if h == 0 {
			n := len(w.log)
			if n > 20 {
				n = 20
			}
			run.Sample(map[string]interface{}{"history": 0, "first_steps": w.log[:n]})
		}
	}
	run.Extra["histories"] = hist
}
