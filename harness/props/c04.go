package props

import (
	"fmt"
	"strings"
	"time"

	"cosmossdk.io/math"
	sdk "github.com/cosmos/cosmos-sdk/types"
	authtypes "github.com/cosmos/cosmos-sdk/x/auth/types"
	banktypes "github.com/cosmos/cosmos-sdk/x/bank/types"
	distributiontypes "github.com/cosmos/cosmos-sdk/x/distribution/types"
	stakingtypes "github.com/cosmos/cosmos-sdk/x/staking/types"

	opchildtypes "github.com/initia-labs/OPinit/x/opchild/types"
	ophosttypes "github.com/initia-labs/OPinit/x/ophost/types"

	"verifharness/mon"
	"verifharness/ref"
	"verifharness/sim"
)

func init() { register("C04", "exploration", checkC04) }

type c04 struct {
	run *mon.Run
	rng *mon.Rand
}

// drain proposes all recorded withdrawals, waits out the period and claims every leaf (twice).
func (c *c04) drain(tc *TwoChain, shape ref.TreeShape, label string, tr []string) {
	run := c.run
	recorded := append([]L2WithdrawalEvent(nil), tc.Recorded...)
	o, unrep, err := tc.ProposeRecorded(shape, c.rng)
	for _, w := range unrep {
		valid := w.Amount.IsPositive()
		if _, e := sdk.AccAddressFromBech32(w.To); e != nil {
			valid = false
		}
		if valid {
			sig := "c04.amount_does_not_fit_leaf.user_withdrawal"
			if !strings.HasPrefix(w.From, "cosmos1") || w.To == tc.L1.Users[0].String() && strings.Contains(label, "refund") {
				sig = "c04.amount_does_not_fit_leaf.refund"
			}
			run.Check("C04.recorded_withdrawal_is_committable", false, sig, append(tr, fmt.Sprintf("L2 recorded withdrawal seq=%d amount=%s to=%s", w.Seq, w.Amount, w.To)),
				"L2 accepted and recorded a withdrawal of %s which cannot be committed in a withdrawal leaf (amount field is 64-bit) and therefore never claimed on L1", w.Amount)
		}
	}
	if err != nil {
		run.Fail("C04.output_proposable", "c04.propose_failed", tr, "%v", err)
		return
	}
	if o == nil {
		return
	}
	for range recorded {
		run.Hit("C04.recorded_withdrawal_is_committable")
	}
	tc.L1.L1.NextBlock(tc.Period + time.Second)
	// a late challenge: once the output is final nobody can take it away again (its unclaimed withdrawals would be lost)
	roles := tc.L1.Bridges[tc.Bridge]
	for _, who := range []string{roles.Challenger.String(), roles.Proposer.String(), tc.L1.L1.Gov} {
		if dr := tc.L1.L1.Deliver(ophosttypes.NewMsgDeleteOutput(who, tc.Bridge, o.Index)); dr.Class == sim.OK {
			run.Fail("C04.every_leaf_finalizes", "c04.final_output_deleted", append(tr, fmt.Sprintf("%s: output %d was final; DeleteOutput by %s -> ok", label, o.Index, short(who))), "a final output holding unclaimed withdrawals was deleted: they can never be claimed")
			return
		}
	}
	order := c.rng.Intn(2)
	n := len(o.Ws)
	for k := 0; k < n; k++ {
		i := k
		if order == 1 {
			i = n - 1 - k
		}
		w := o.Ws[i]
		if _, e := sdk.AccAddressFromBech32(w.To); e != nil || w.Amount == 0 {
			run.Count("C04.skipped_invalid_recipient_or_zero")
			continue // outside the property's premise (positive amount, valid L1 recipient)
		}
		before := tc.L1.L1.BK.GetBalance(tc.L1.L1.Ctx, sdk.MustAccAddressFromBech32(w.To), w.Denom).Amount
		res := tc.L1.L1.Deliver(o.Claim(i, tc.L1.Users[7].String()))
		run.Evaluations++
		ctr := append(tr, fmt.Sprintf("%s: tree size %d shape %d leaf %d (seq=%d from=%q amount=%d denom=%s) -> %s %s", label, n, shape, i, w.Seq, short(w.From), w.Amount, short(w.Denom), res.Class, res.ErrString()))
		ok := run.Check("C04.every_leaf_finalizes", res.Class == sim.OK, "c04.leaf_not_finalizable", ctr, "recorded withdrawal cannot be finalized on L1: %s", res.ErrString())
		if ok {
			after := tc.L1.L1.BK.GetBalance(tc.L1.L1.Ctx, sdk.MustAccAddressFromBech32(w.To), w.Denom).Amount
			run.Check("C04.paid_in_full", after.Sub(before).Equal(math.NewIntFromUint64(w.Amount)), "c04.paid_amount", ctr, "recipient received %s, withdrawal was %d", after.Sub(before), w.Amount)
			r2 := tc.L1.L1.Deliver(o.Claim(i, tc.L1.Users[6].String()))
			run.Check("C04.exactly_once", r2.Class != sim.OK, "c04.second_claim", ctr, "second claim of the same leaf succeeded")
			src := "user"
			if !strings.HasPrefix(w.From, "cosmos1") || strings.Contains(label, "refund") {
				src = "refund-or-mixed"
			}
			run.Distinct(fmt.Sprintf("%d/%d/%d/%s/%s", n, shape, i, amountClass(w.Amount), src))
		}
	}
}

func amountClass(a uint64) string {
	switch {
	case a == 1:
		return "1"
	case a < 1<<31:
		return "<2^31"
	case a < 1<<53:
		return "<2^53"
	case a < 1<<63:
		return "<2^63"
	case a == 1<<63:
		return "=2^63"
	case a == 1<<64-1:
		return "=2^64-1"
	}
	return ">2^63"
}

func (c *c04) treeWorkload(n int, shape ref.TreeShape) {
	tc := newTwoChain(5*time.Second, L2EnvOpts{})
	if n%3 == 0 {
		tc.L1.EnableShadow(uint64(n))
		tc.L2.EnableShadow(uint64(n))
	}
	tc.L1.L1.Speculate, tc.L2.L2.Speculate = n%2 == 0, n%4 < 2
	depositor := tc.L1.Users[0]
	// fund three L2 users through real deposits, and create n/4 refunds
	nRefund := n / 4
	users := tc.L2.Users[:3]
	for _, u := range users {
		if r := tc.L1Deposit(depositor, u.String(), "uinit", math.NewInt(1_000_000_000), nil); r.Class != sim.OK {
			panic(r.ErrString())
		}
	}
	bad := []string{"0xdeadbeef", "init1notvalidhere", "é中", strings.Repeat("z", 300)}
	for i := 0; i < nRefund; i++ {
		if r := tc.L1Deposit(tc.L1.Users[1+i%3], bad[i%len(bad)], "uinit", math.NewInt(int64(1000+i)), nil); r.Class != sim.OK {
			panic(r.ErrString())
		}
	}
	// interleave relays (refunds) and user withdrawals
	nUser := n - nRefund
	done := 0
	for len(tc.PendingDeposits) > 0 || done < nUser {
		if len(tc.PendingDeposits) > 0 && (done >= nUser || c.rng.Bool() || done == 0 && len(tc.PendingDeposits) > nRefund) {
			res, _ := tc.RelayNext()
			if res.Class != sim.OK {
				c.run.Fail("C04.relay", "c04.relay_failed", nil, "relay failed: %s", res.ErrString())
				return
			}
			continue
		}
		u := users[done%3]
		bal := tc.L2.L2.BK.GetBalance(tc.L2.L2.Ctx, u.Addr, tc.L2.L2Denom("uinit")).Amount
		if !bal.IsPositive() {
			res, okr := tc.RelayNext()
			if !okr || res.Class != sim.OK {
				panic("no funds on L2 to withdraw")
			}
			continue
		}
		amt := math.NewInt(1 + int64(c.rng.Intn(50_000)))
		to := tc.L1.Users[2+done%5].String()
		if r := tc.L2Withdraw(u, to, tc.L2.L2Denom("uinit"), amt); r.Class != sim.OK {
			c.run.Fail("C04.l2_withdraw", "c04.l2_withdraw_failed", nil, "L2 withdrawal within balance failed: %s", r.ErrString())
			return
		}
		done++
	}
	// what L2 accepted is read from its state (sequences consumed); every one of them must have been announced
	if accepted := int(tc.L2.NextL2Seq() - 1); !c.run.Check("C04.accepted_withdrawal_is_announced", accepted == len(tc.AllWithdrawals) && len(tc.Recorded) == n, "c04.accepted_withdrawal_not_announced.tree", nil,
		"L2 consumed %d withdrawal sequences, %d withdrawals were announced (workload issued %d): the others can never be committed or claimed", accepted, len(tc.AllWithdrawals), n) {
		return
	}
	c.drain(tc, shape, "tree", nil)
}

func pow2(n uint) math.Int {
	return math.NewIntFromBigInt(math.NewInt(1).BigInt().Lsh(math.NewInt(1).BigInt(), n))
}

func (c *c04) amountLattice() {
	run := c.run
	amounts := []struct {
		name string
		v    math.Int
	}{
		{"1", math.NewInt(1)}, {"2", math.NewInt(2)}, {"2^31", pow2(31)}, {"2^53", pow2(53)}, {"2^63-1", pow2(63).SubRaw(1)}, {"2^63", pow2(63)},
		{"2^64-1", pow2(64).SubRaw(1)}, {"2^64", pow2(64)}, {"2^64+1", pow2(64).AddRaw(1)}, {"2^65", pow2(65)}, {"2^128", pow2(128)}, {"2^255-1", pow2(255).SubRaw(1)},
	}
	for _, a := range amounts {
		for _, path := range []string{"deposit-then-user-withdrawal", "deposit-refund", "accumulate-then-withdraw"} {
			tc := newTwoChain(5*time.Second, L2EnvOpts{})
			whale := tc.L1.Users[0]
			tc.L1.L1.Fund(whale.Addr, sdk.NewCoin("uinit", a.v))
			l2user := tc.L2.Users[0]
			tr := []string{fmt.Sprintf("amount %s (%s) via %s", a.name, a.v, path)}
			run.Hit("C04.amount_lattice")
			switch path {
			case "deposit-then-user-withdrawal":
				r := tc.L1Deposit(whale, l2user.String(), "uinit", a.v, nil)
				run.Evaluations++
				if r.Class != sim.OK {
					run.Distinct("amount/" + a.name + "/" + path + "/l1-rejected")
					continue // L1 refused at entry: nothing was accepted that cannot be completed
				}
				if rr, _ := tc.RelayNext(); rr.Class != sim.OK {
					run.Fail("C04.accepted_deposit_is_relayable", "c04.relay_failed", tr, "L1 accepted the deposit but L2 cannot finalize it: %s", rr.ErrString())
					continue
				}
				w := tc.L2Withdraw(l2user, tc.L1.Users[3].String(), tc.L2.L2Denom("uinit"), a.v)
				if w.Class != sim.OK {
					run.Distinct("amount/" + a.name + "/" + path + "/l2-rejected")
					// the user must still be able to get the funds out in pieces that fit
					half := a.v.QuoRaw(2)
					if half.IsPositive() && half.IsUint64() {
						w2 := tc.L2Withdraw(l2user, tc.L1.Users[3].String(), tc.L2.L2Denom("uinit"), half)
						run.Check("C04.funds_not_trapped", w2.Class == sim.OK, "c04.funds_trapped", tr, "L2 refused the full amount and also refuses half of it: %s", w2.ErrString())
					} else {
						run.Check("C04.funds_not_trapped", false, "c04.deposit_accepted_but_unwithdrawable", tr, "L1 accepted a deposit of %s whose L2 balance can never be withdrawn in one piece and half does not fit either", a.v)
					}
				}
				c.drain(tc, ref.PadLast, "amount/"+a.name+"/"+path, tr)
				run.Distinct("amount/" + a.name + "/" + path + "/completed")
			case "deposit-refund":
				r := tc.L1Deposit(whale, "not-a-valid-l2-address", "uinit", a.v, nil)
				run.Evaluations++
				if r.Class != sim.OK {
					run.Distinct("amount/" + a.name + "/" + path + "/l1-rejected")
					continue
				}
				if rr, _ := tc.RelayNext(); rr.Class != sim.OK {
					run.Fail("C04.accepted_deposit_is_relayable", "c04.relay_failed", tr, "L1 accepted the deposit but L2 cannot finalize it: %s", rr.ErrString())
					continue
				}
				c.drain(tc, ref.Promote, "refund amount/"+a.name, tr)
				run.Distinct("amount/" + a.name + "/" + path + "/completed")
			case "accumulate-then-withdraw":
				// two deposits of a/2 (+1) each, then one withdrawal of the sum
				half := a.v.QuoRaw(2)
				rest := a.v.Sub(half)
				okd := true
				for _, part := range []math.Int{half, rest} {
					if !part.IsPositive() {
						continue
					}
					if r := tc.L1Deposit(whale, l2user.String(), "uinit", part, nil); r.Class != sim.OK {
						okd = false
						break
					}
					if rr, _ := tc.RelayNext(); rr.Class != sim.OK {
						okd = false
						break
					}
				}
				run.Evaluations++
				if !okd {
					run.Distinct("amount/" + a.name + "/" + path + "/parts-rejected")
					continue
				}
				w := tc.L2Withdraw(l2user, tc.L1.Users[4].String(), tc.L2.L2Denom("uinit"), a.v)
				if w.Class != sim.OK {
					run.Distinct("amount/" + a.name + "/" + path + "/l2-rejected")
					continue
				}
				c.drain(tc, ref.PadLast, "amount/"+a.name+"/"+path, tr)
				run.Distinct("amount/" + a.name + "/" + path + "/completed")
			}
		}
	}
}

// bigEscrow: the escrow of one denom accumulates beyond 2^64 through several deposits (each below 2^64), withdrawals
// are made in pieces and every piece is claimed while the escrow is still above 2^64.
func (c *c04) bigEscrow() {
	run := c.run
	tc := newTwoChain(5*time.Second, L2EnvOpts{})
	whale := tc.L1.Users[0]
	part := pow2(63)
	tc.L1.L1.Fund(whale.Addr, sdk.NewCoin("uinit", part.MulRaw(8)))
	l2user := tc.L2.Users[0]
	for i := 0; i < 5; i++ {
		if r := tc.L1Deposit(whale, l2user.String(), "uinit", part, nil); r.Class != sim.OK {
			run.Fail("C04.l1_deposit", "c04.big_escrow_deposit_rejected", nil, "deposit of 2^63 rejected: %s", r.ErrString())
			return
		}
		if rr, _ := tc.RelayNext(); rr.Class != sim.OK {
			run.Fail("C04.accepted_deposit_is_relayable", "c04.relay_failed", nil, "relay failed: %s", rr.ErrString())
			return
		}
	}
	for _, amt := range []math.Int{math.NewInt(12345), part, pow2(64).SubRaw(1), math.NewInt(1)} {
		if r := tc.L2Withdraw(l2user, tc.L1.Users[3].String(), tc.L2.L2Denom("uinit"), amt); r.Class != sim.OK {
			run.Fail("C04.l2_withdraw", "c04.l2_withdraw_failed", nil, "L2 withdrawal of %s within balance failed: %s", amt, r.ErrString())
			return
		}
	}
	run.Evaluations++
	c.drain(tc, ref.PadLast, "escrow above 2^64", []string{"5 deposits of 2^63 (escrow 5*2^63), withdrawals of 12345, 2^63, 2^64-1, 1"})
	run.Distinct("bigescrow")
}

// emptyRecipient: whatever L1 accepts as deposit recipient must be refundable.
func (c *c04) emptyRecipient() {
	run := c.run
	for _, to := range []string{"", " ", "\x00"} {
		for _, data := range [][]byte{nil, []byte("hook-only")} {
			tc := newTwoChain(3*time.Second, L2EnvOpts{})
			r := tc.L1Deposit(tc.L1.Users[2], to, "uinit", math.NewInt(777), data)
			run.Evaluations++
			if r.Class != sim.OK {
				run.Distinct(fmt.Sprintf("emptyto/%q/%d/l1-rejected", to, len(data)))
				continue
			}
			tr := []string{fmt.Sprintf("L1 accepted a deposit with recipient %q and %d payload bytes", to, len(data))}
			if rr, _ := tc.RelayNext(); rr.Class != sim.OK {
				run.Check("C04.accepted_deposit_is_relayable", false, "c04.relay_failed", tr, "L1 accepted the deposit but L2 cannot finalize it: %s", rr.ErrString())
				continue
			}
			// if it was refunded, the refund must be claimable
			for _, w := range tc.Recorded {
				m := ophosttypes.NewMsgFinalizeTokenWithdrawal(tc.L1.Users[0].String(), 1, 1, w.Seq, nil, w.From, w.To, sdk.NewCoin(w.BaseDenom, w.Amount), []byte{0}, make([]byte, 32), make([]byte, 32))
				if err := m.Validate(tc.L1.L1.AK.AddressCodec()); err != nil {
					run.Check("C04.every_leaf_finalizes", false, "c04.refund_unclaimable", tr, "the refund of this deposit (from=%q to=%q) can never be finalized on L1: %v", w.From, w.To, err)
				}
			}
			c.drain(tc, ref.PadLast, "refund of odd-recipient deposit", tr)
			run.Distinct(fmt.Sprintf("emptyto/%q/%d/completed", to, len(data)))
		}
	}
}

// hookWithdrawals: withdrawals L2 accepts as part of a deposit hook (a signed transaction with several messages, executed
// on the recipient's behalf). Acceptance is read from the state (the L2 sequence advanced, the tokens were burned); each
// accepted withdrawal must be announced, so that it is committed and claimable like any other.
func (c *c04) hookWithdrawals() {
	run := c.run
	type hk struct {
		name string
		msgs func(u sim.Account, other sim.Account, l2d, to string) []sdk.Msg
		nW   int
	}
	wd := func(u sim.Account, to, l2d string, a int64) sdk.Msg {
		return opchildtypes.NewMsgInitiateTokenWithdrawal(u.String(), to, sdk.NewCoin(l2d, math.NewInt(a)))
	}
	snd := func(u, o sim.Account, l2d string, a int64) sdk.Msg {
		return banktypes.NewMsgSend(u.Addr, o.Addr, sdk.NewCoins(sdk.NewCoin(l2d, math.NewInt(a))))
	}
	kinds := []hk{
		{"withdraw", func(u, o sim.Account, l2d, to string) []sdk.Msg { return []sdk.Msg{wd(u, to, l2d, 5)} }, 1},
		{"withdraw,send", func(u, o sim.Account, l2d, to string) []sdk.Msg {
			return []sdk.Msg{wd(u, to, l2d, 6), snd(u, o, l2d, 1)}
		}, 1},
		{"send,withdraw", func(u, o sim.Account, l2d, to string) []sdk.Msg {
			return []sdk.Msg{snd(u, o, l2d, 1), wd(u, to, l2d, 7)}
		}, 1},
		{"withdraw,withdraw", func(u, o sim.Account, l2d, to string) []sdk.Msg {
			return []sdk.Msg{wd(u, to, l2d, 8), wd(u, to, l2d, 9)}
		}, 2},
		{"withdraw,send,withdraw,send", func(u, o sim.Account, l2d, to string) []sdk.Msg {
			return []sdk.Msg{wd(u, to, l2d, 10), snd(u, o, l2d, 2), wd(u, to, l2d, 11), snd(u, o, l2d, 3)}
		}, 2},
	}
	// hooks that fail after a withdrawal went through: the whole hook leaves nothing behind, the deposit is refunded —
	// one sequence, one announcement (the refund), exactly the deposit burned
	kinds = append(kinds,
		hk{"withdraw,unpayable-send", func(u, o sim.Account, l2d, to string) []sdk.Msg {
			return []sdk.Msg{wd(u, to, l2d, 40), snd(u, o, l2d, 1<<62)}
		}, 1},
		hk{"send,withdraw,unpayable-send", func(u, o sim.Account, l2d, to string) []sdk.Msg {
			return []sdk.Msg{snd(u, o, l2d, 3), wd(u, to, l2d, 41), snd(u, o, l2d, 1<<62)}
		}, 1},
		hk{"withdraw,withdraw-more-than-held", func(u, o sim.Account, l2d, to string) []sdk.Msg {
			return []sdk.Msg{wd(u, to, l2d, 42), wd(u, to, l2d, 1<<62)}
		}, 1})
	for shape := 0; shape < 2; shape++ {
		tc := newTwoChain(5*time.Second, L2EnvOpts{})
		l2d := tc.L2.L2Denom("uinit")
		u, other := tc.L2.Users[0], tc.L2.Users[1]
		// the recipient needs an account (for the hook's signature) before the hooks run
		if r := tc.L1Deposit(tc.L1.Users[0], u.String(), "uinit", math.NewInt(1000), nil); r.Class != sim.OK {
			panic(r.ErrString())
		}
		if r, _ := tc.RelayNext(); r.Class != sim.OK {
			panic(r.ErrString())
		}
		var tr []string
		for _, k := range kinds {
			n, sq, ok := tc.L2.L2.AccNumSeq(u.Addr)
			if !ok {
				panic("recipient has no account")
			}
			bz, err := tc.L2.L2.SignTx(u, n, sq, sim.L2ChainID, 400_000, k.msgs(u, other, l2d, tc.L1.Users[3].String())...)
			if err != nil {
				panic(err)
			}
			if r := tc.L1Deposit(tc.L1.Users[0], u.String(), "uinit", math.NewInt(100), bz); r.Class != sim.OK {
				panic(r.ErrString())
			}
			seqBefore, supBefore, recBefore := tc.L2.NextL2Seq(), sim.Supply(tc.L2.L2.Ctx, tc.L2.L2.BK).AmountOf(l2d), len(tc.AllWithdrawals)
			res, _ := tc.RelayNext()
			run.Evaluations++
			if res.Class != sim.OK {
				run.Fail("C04.relay", "c04.relay_failed", tr, "relay of a deposit with hook [%s] failed: %s", k.name, res.ErrString())
				return
			}
			accepted := int(tc.L2.NextL2Seq() - seqBefore)
			burned := supBefore.AddRaw(100).Sub(sim.Supply(tc.L2.L2.Ctx, tc.L2.L2.BK).AmountOf(l2d))
			announced := tc.AllWithdrawals[recBefore:]
			sum := math.ZeroInt()
			for _, a := range announced {
				sum = sum.Add(a.Amount)
			}
			tr = append(tr, fmt.Sprintf("deposit 100 with hook [%s]: L2 sequence advanced by %d, %s burned, %d withdrawal(s) announced totalling %s", k.name, accepted, burned, len(announced), sum))
			run.Check("C04.accepted_withdrawal_is_announced", accepted == len(announced) && burned.Equal(sum), "c04.accepted_withdrawal_not_announced", tr,
				"hook [%s]: L2 consumed %d withdrawal sequence(s) and burned %s, but announced %d withdrawal(s) totalling %s — the unannounced ones are never committed and cannot be claimed", k.name, accepted, burned, len(announced), sum)
			if accepted == k.nW {
				run.Distinct(fmt.Sprintf("hook/%s/shape%d", k.name, shape))
			} else {
				run.Count("C04.hook_did_not_execute_as_scripted")
			}
		}
		c.drain(tc, ref.TreeShape(shape), "hook", tr)
	}
}

func (c *c04) stringsWorkload(thorough bool) {
	run := c.run
	denoms := []string{"abc", "uinit", "ibc/27394FB092D2ECCD56123C74F36E4C1F926001CEADA9CA97EA622B25F41E5EB2", "move/" + strings.Repeat("ab", 30), "a" + strings.Repeat("x", 127), "evm/0xAbC.d_e-f:g",
		lookalikeDenom} // a host-chain token whose own name has the shape of a derived denom ("l2/" + 64 hex characters)
	l1Recipients := []string{sim.NewAccount("r20").String(), sdk.AccAddress(c.rng.Bytes(32)).String(), sdk.AccAddress(c.rng.Bytes(1)).String(),
		strings.ToUpper(sim.NewAccount("r20upper").String())} // bech32 may be written all-uppercase; L2 records the string verbatim
	l2BadRecipients := []string{"0x" + strings.Repeat("ab", 20), "INIT1UPPERCASE", "é中🙂", strings.Repeat("y", 1000), "a\tb", "cosmos1", " "}
	tc := newTwoChain(3*time.Second, L2EnvOpts{})
	// L1 module accounts that exist in the auth store are valid recipients as well (L2 burns for any non-empty string)
	for _, name := range []string{authtypes.FeeCollectorName, distributiontypes.ModuleName, ophosttypes.ModuleName, stakingtypes.BondedPoolName} {
		l1Recipients = append(l1Recipients, tc.L1.L1.AK.GetModuleAccount(tc.L1.L1.Ctx, name).GetAddress().String())
	}
	tc.L1.L1.Speculate = true // every L1 transaction (claims included) is first run on a branch that is thrown away
	who := tc.L1.Users[2]
	for _, d := range denoms {
		tc.L1.L1.Fund(who.Addr, sdk.NewCoin(d, math.NewInt(1_000_000_000)))
	}
	for round := 0; round < pick(thorough, 2, 100); round++ {
		// an empty deposit of a denom L2 has never seen, to a recipient L2 cannot use: L1 accepts it, so L2 must be able
		// to process it (or every later deposit waits behind it for ever)
		if r := tc.L1Deposit(who, l2BadRecipients[round%len(l2BadRecipients)], fmt.Sprintf("unever%d", round), math.ZeroInt(), nil); r.Class == sim.OK {
			if rr, _ := tc.RelayNext(); rr.Class != sim.OK {
				run.Fail("C04.accepted_deposit_is_relayable", "c04.relay_failed.empty_first_deposit", []string{fmt.Sprintf("empty deposit of unever%d to %q", round, l2BadRecipients[round%len(l2BadRecipients)])}, "relay of an empty first deposit of a denom failed: %s", rr.ErrString())
				return
			}
		}
		for di, d := range denoms {
			u := tc.L2.Users[di%4]
			if r := tc.L1Deposit(who, u.String(), d, math.NewInt(100_000), nil); r.Class != sim.OK {
				run.Fail("C04.l1_deposit", "c04.valid_denom_deposit_rejected", []string{d}, "deposit of valid denom %q rejected: %s", d, r.ErrString())
				continue
			}
			// refund with a strange recipient string: it becomes the leaf's sender
			if r := tc.L1Deposit(who, l2BadRecipients[(round+di)%len(l2BadRecipients)], d, math.NewInt(int64(77+di)), nil); r.Class != sim.OK {
				run.Count("C04.odd_recipient_deposit_rejected_by_l1")
			}
			for len(tc.PendingDeposits) > 0 {
				if rr, _ := tc.RelayNext(); rr.Class != sim.OK {
					run.Fail("C04.accepted_deposit_is_relayable", "c04.relay_failed", []string{d}, "relay failed: %s", rr.ErrString())
					return
				}
			}
			to := l1Recipients[(round*len(denoms)+di)%len(l1Recipients)]
			if r := tc.L2Withdraw(u, to, tc.L2.L2Denom(d), math.NewInt(int64(1+c.rng.Intn(90_000)))); r.Class != sim.OK {
				run.Fail("C04.l2_withdraw", "c04.l2_withdraw_failed", []string{d, to}, "L2 withdrawal failed: %s", r.ErrString())
			}
		}
		c.drain(tc, ref.TreeShape(round%2), fmt.Sprintf("strings round %d refund-mix", round), nil)
	}
}

func checkC04(run *mon.Run, rng *mon.Rand, thorough bool) {
	run.Rule = "two real chains + a faithful executor model (acts only on parsed events): (a) for every tree size 1..N (48 quick; 400 + sampled sizes up to 600 thorough), both tree shapes, a mix of user and refund withdrawals recorded by the real L2 is committed, the period waited out, and EVERY leaf claimed (and re-claimed) on the real L1; (b) amount lattice {1,2,2^31,2^53,2^63-1,2^63,2^64-1,2^64,2^64+1,2^65,2^128,2^255-1} through three paths (deposit+user withdrawal, deposit+refund, accumulate+withdraw); (c) denoms with / : . _ - and 128 chars, 1/20/32-byte L1 recipients, hostile L2 recipient strings that become the refund's sender. Distinct non-trivial = (size, shape, position, amount class, source) finalized successfully + lattice cells Plus: withdrawals executed inside multi-message deposit hooks (accepted == announced, read from state), L1 module accounts as recipients, claims first simulated on discarded branches, shadow activity in a third of the tree workloads."
	run.Assumptions = []string{"the published tree rule: sorted-pair SHA3 nodes over leaves in sequence order; both completion rules used by executors (pad-with-last, promote-odd) are exercised", "premise of the property: positive amount and valid L1 recipient"}
	for _, cl := range []string{"C04.every_leaf_finalizes", "C04.paid_in_full", "C04.exactly_once", "C04.recorded_withdrawal_is_committable", "C04.amount_lattice"} {
		run.Declare(cl, 30)
	}
	c := &c04{run: run, rng: rng}
	c.amountLattice()
	if run.TooMany() {
		return
	}
	c.stringsWorkload(thorough)
	c.bigEscrow()
	c.emptyRecipient()
	run.Declare("C04.accepted_withdrawal_is_announced", 8)
	c.hookWithdrawals()
	maxN := pick(thorough, 48, 400)
	for n := 1; n <= maxN && !run.TooMany(); n++ {
		for shape := 0; shape < 2; shape++ {
			c.treeWorkload(n, ref.TreeShape(shape))
		}
	}
	if thorough {
		for _, n := range []int{200, 255, 256, 257, 300, 511, 512, 513, 600} {
			if run.TooMany() {
				break
			}
			c.treeWorkload(n, ref.TreeShape(n%2))
		}
	}
	run.Extra["max_exhaustive_tree_size"] = maxN
	run.Sample(map[string]interface{}{"tree_size": 7, "shape": "pad-last", "sources": "5 user withdrawals + 1 refund (recipient '0xdeadbeef')", "claims": "every leaf, then every leaf again"})
}
