package props

import (
	"bytes"
	"fmt"
	"math/big"
	"os"
	"os/exec"
	"path/filepath"
	"strings"
	"sync"
	"sync/atomic"
	"time"

	"cosmossdk.io/math"
	sdk "github.com/cosmos/cosmos-sdk/types"

	opchildtypes "github.com/initia-labs/OPinit/x/opchild/types"
	ophosttypes "github.com/initia-labs/OPinit/x/ophost/types"
	ophosthook "github.com/initia-labs/OPinit/x/ophost/types/hook"

	"verifharness/mon"
	"verifharness/sim"
)

func init() { register("C18", "exploration", checkC18) }

// A history is a pure function of its seed: it builds fresh chain instances, drives them and returns
// everything observable (responses, errors, events and validator updates in order, store digests).
// Replicas with an odd index execute every transaction (and every validator-set block end) first on a throw-away
// branch, as CheckTx / simulation / an aborted block execution would; even ones do not. The committed history is the
// same, so everything observable must be the same: nothing may depend on prior process history.
// replicaMode: how a replica's process differs from replica 0's (never what it executes): spec = every transaction and
// other activity first run on discarded branches; restartEvery = the node process restarts before every n-th transaction.
type replicaMode struct {
	spec         bool
	restartEvery int
}

func modeOf(i int) replicaMode {
	m := replicaMode{spec: i%2 == 1}
	if i%4 >= 2 {
		m.restartEvery = 3 + i%5
	}
	return m
}

type c18History struct {
	name string
	f    func(seed uint64, steps int, mode replicaMode) (transcript []string, orderSensitive int)
}

func scratchRun() *mon.Run { return mon.NewRun("C18-scratch", "quick", 0, "exploration") }

func histTwoChain(seed uint64, steps int, mode replicaMode) ([]string, int) {
	spec := mode.spec
	rr := mon.NewRand(seed)
	t1, t2 := &sim.Transcript{}, &sim.Transcript{}
	w := &c08World{run: scratchRun(), rng: rr, tc: newTwoChain(4*time.Second, L2EnvOpts{}), denoms: []string{"uinit", "uusdc"}, feat: map[string]int{}, initial: map[string]*big.Int{"uinit": new(big.Int), "uusdc": new(big.Int)}}
	w.tc.L1.L1.T, w.tc.L2.L2.T = t1, t2
	w.tc.L1.L1.Speculate, w.tc.L2.L2.Speculate = spec, spec
	w.tc.L1.L1.RestartEvery, w.tc.L2.L2.RestartEvery = mode.restartEvery, mode.restartEvery
	if spec {
		w.tc.L1.EnableShadow(seed)
		w.tc.L2.EnableShadow(seed)
	}
	multi := 0
	for s := 0; s < steps; s++ {
		if s == steps/3 {
			// a sweep of hook gas limits: somewhere between "the hook's signature check already runs out" and "the hook
			// completes" its message handler runs out of gas in mid-flight (a panic the module contains); hooks delivered
			// afterwards, under the default limit, behave as if that had never happened
			tc, l2 := w.tc, w.tc.L2.L2
			u := tc.L2.Users[0]
			relayAll := func() {
				for len(tc.PendingDeposits) > 0 {
					if r, _ := tc.RelayNext(); r.Class != sim.OK {
						break
					}
				}
			}
			tc.L1Deposit(tc.L1.Users[0], u.String(), "uinit", math.NewInt(10_000), nil)
			relayAll()
			for _, g := range []uint64{2_000, 5_000, 10_000, 20_000, 40_000, 80_000, opchildtypes.DefaultHookMaxGas} {
				p, _ := l2.K.GetParams(l2.Ctx)
				p.HookMaxGas = g
				l2.Deliver(opchildtypes.NewMsgUpdateParams(l2.Authority, &p))
				tc.L1Deposit(tc.L1.Users[1], u.String(), "uinit", math.NewInt(100), w.hookData(u, true, tc.L2.L2Denom("uinit")))
				relayAll()
			}
		}
		switch x := rr.Intn(100); {
		case x < 22:
			w.opL1Deposit()
		case x < 42:
			w.opRelay()
		case x < 50:
			w.opL2Transfer()
		case x < 64:
			w.opL2Withdraw()
		case x < 72:
			w.opPropose()
		case x < 76:
			w.opChallenge()
		case x < 84:
			w.tc.L1.L1.NextBlock(2 * time.Second)
			w.tc.L2.L2.NextBlock(time.Second)
		case x < 86:
			// the hook gas limit changes mid-history: with a tiny limit every hook runs out of gas (a contained panic)
			l2 := w.tc.L2.L2
			p, _ := l2.K.GetParams(l2.Ctx)
			p.HookMaxGas = mon.Pick(rr, []uint64{1, 3_000, 20_000, opchildtypes.DefaultHookMaxGas})
			l2.Deliver(opchildtypes.NewMsgUpdateParams(l2.Authority, &p))
		case x < 90:
			// a multi-message transaction relaying several pending deposits at once
			if len(w.tc.PendingDeposits) >= 2 {
				a, b := w.tc.PendingDeposits[0], w.tc.PendingDeposits[1]
				res := w.tc.L2.L2.DeliverGas(900_000_000, w.tc.RelayMsg(w.tc.L2.Executors[0], a), w.tc.RelayMsg(w.tc.L2.Executors[1], b))
				if res.Class == sim.OK {
					w.tc.PendingDeposits = w.tc.PendingDeposits[2:]
					w.tc.record(res)
					multi++
				}
			}
		default:
			w.opClaim()
		}
	}
	out := append(append([]string{}, t1.Lines...), t2.Lines...)
	out = append(out, "L1EXPORT "+string(l1ExportJSON(w.tc.L1.L1)), "L2EXPORT "+string(l2ExportJSON(w.tc.L2.L2)))
	out = append(out, "L1DIGEST "+sim.Digest(w.tc.L1.L1.Dump()), "L2DIGEST "+sim.Digest(w.tc.L2.L2.Dump()))
	return out, multi + 2
}

func histValidators(seed uint64, steps int, mode replicaMode) ([]string, int) {
	spec := mode.spec
	rng := mon.NewRand(seed)
	t := &sim.Transcript{}
	gen := []ValKey{NewValKey(1), NewValKey(2), NewValKey(3)}
	w := newValWorld(scratchRun(), "aux", gen, 30, 3)
	l2 := w.e.L2
	l2.T = t
	l2.Speculate = spec
	l2.RestartEvery = mode.restartEvery
	w.specBlocks = spec
	if spec {
		w.e.EnableShadow(seed)
	}
	t.Add("GENESIS updates=%s", sim.FormatUpdates(l2.LastUpdates))
	_, _ = l2.BeginBlock(1e9)
	sensitive := 0
	bonded := map[int]bool{1: true, 2: true, 3: true}
	for s := 0; s < steps; s++ {
		if s == steps/2 {
			// a long retention window is filled, then cut down by much more than one entry, and blocks go on: what is left
			// of the history afterwards may not depend on whether a replica rebuilt its keepers in between
			w.setParams(func(p *opchildtypes.Params) { p.HistoricalEntries = 9 }, "params")
			alive := true
			for b := 0; b < 11 && alive; b++ {
				alive = w.endBlock()
			}
			if alive {
				w.setParams(func(p *opchildtypes.Params) { p.HistoricalEntries = 2 }, "params")
				for b := 0; b < 4 && alive; b++ {
					alive = w.endBlock()
				}
			}
			if !alive {
				return t.Lines, sensitive
			}
		}
		switch x := rng.Intn(100); {
		case x < 30:
			// add a burst of validators
			for k := 0; k < 2+rng.Intn(4); k++ {
				i := 4 + rng.Intn(16)
				if w.addValidator(NewValKey(i), i, i).Class == sim.OK {
					bonded[i] = true
				}
			}
		case x < 55:
			// several validators leave in the same block: the order of the removal updates must not depend on map order
			n := 0
			for i := range bonded {
				_ = i
			}
			for i := 1; i <= 20 && n < 3+rng.Intn(3); i++ {
				j := 1 + (i*7+s)%20
				if bonded[j] && w.removeValidator(NewValKey(j).Operator, j).Class == sim.OK {
					delete(bonded, j)
					n++
				}
			}
			if n >= 3 {
				sensitive++
			}
			if !w.endBlock() {
				return t.Lines, sensitive
			}
		case x < 62:
			// an executor-change plan with several executors at the end of this block
			h := uint64(l2.Ctx.BlockHeight())
			nv := NewValKey(500 + s)
			bz, _ := l2.Enc.Codec.MarshalInterfaceJSON(nv.Pub)
			err := l2.K.RegisterExecutorChangePlan(uint64(s+1), h, nv.Operator.Val(), "m", string(bz), "i", []string{w.e.Executors[0].String(), sim.NewAccount("executorC").String(), sim.NewAccount("executorD").String()})
			t.Add("PLAN registered at %d err=%v", h, err)
			if !w.endBlock() {
				return t.Lines, sensitive
			}
			bonded = map[int]bool{}
			sensitive++
		case x < 66:
			// several plans whose heights have already passed are registered at once (e.g. by an upgrade handler);
			// they must never fire, in whatever order a map holds them
			cur := uint64(l2.Ctx.BlockHeight())
			for k := uint64(0); k < 4 && cur > k+1; k++ {
				ov := NewValKey(700 + int(k))
				bz, _ := l2.Enc.Codec.MarshalInterfaceJSON(ov.Pub)
				err := l2.K.RegisterExecutorChangePlan(1000+k, cur-1-k, ov.Operator.Val(), "overdue", string(bz), "i", []string{sim.NewAccount(fmt.Sprintf("overdue%d", k)).String()})
				t.Add("OVERDUE PLAN registered for %d err=%v", cur-1-k, err)
			}
			sensitive++
		case x < 68:
			mx := uint32(5 + rng.Intn(30))
			he := mon.Pick(rng, []uint32{0, 1, 2, 3, 9, 14}) // retention grows and shrinks by more than one
			w.setParams(func(p *opchildtypes.Params) { p.MaxValidators = mx; p.HistoricalEntries = he }, "params")
		case x < 72:
			// the admin's batch: several authority-signed messages that do not commute, executed in the listed order
			p, _ := l2.K.GetParams(l2.Ctx)
			p.MaxValidators = uint32(5 + rng.Intn(30))
			nk := NewValKey(300 + s%90)
			add, _ := opchildtypes.NewMsgAddValidator("batch", l2.Authority, nk.Operator.Val(), nk.Pub)
			inner := []sdk.Msg{opchildtypes.NewMsgUpdateParams(l2.Authority, &p), add}
			for j := range bonded {
				_ = j
			}
			for j := 1; j <= 20; j++ {
				if bonded[j] {
					rm, _ := opchildtypes.NewMsgRemoveValidator(l2.Authority, NewValKey(j).Operator.Val())
					inner = append(inner, rm)
					delete(bonded, j)
					break
				}
			}
			inner = append(inner, opchildtypes.NewMsgSpendFeePool(sdk.MustAccAddressFromBech32(l2.Authority), w.e.Users[0].Addr, sdk.NewCoins()))
			if m, err := opchildtypes.NewMsgExecuteMessages(w.e.Admin.String(), inner); err == nil {
				l2.Deliver(m)
				sensitive++
			}
		case x < 80:
			seq := w.e.NextL1Seq()
			to := mon.Pick(rng, w.e.Users).String()
			if rng.Chance(30) {
				to = "bad"
			}
			p, _ := l2.K.GetParams(l2.Ctx)
			if len(p.BridgeExecutors) > 0 {
				ex := sim.Account{Addr: sdk.MustAccAddressFromBech32(p.BridgeExecutors[0])}
				l2.Deliver(w.e.DepositMsg(ex, seq, "l1", to, "uinit", math.NewInt(int64(rng.Intn(1000))), nil))
			}
		default:
			if !w.endBlock() {
				return t.Lines, sensitive
			}
			if rng.Chance(20) {
				// the genesis document a node would write if it were stopped here (several validators are bonded at most of
				// these points; at the end of the history a plan has usually left one)
				t.Add("EXPORT at height %d %s", l2.Ctx.BlockHeight(), l2ExportJSON(l2))
			}
		}
	}
	t.Add("EXPORT %s", l2ExportJSON(l2))
	return t.Lines, sensitive
}

func histOracle(seed uint64, steps int, mode replicaMode) ([]string, int) {
	spec := mode.spec
	rng := mon.NewRand(seed)
	t := &sim.Transcript{}
	o := newOracleEnv([]int64{10, 9, 8, 7, 6, 5, 4}, []string{"BTC/USD", "ETH/USD", "ATOM/USD", "SOL/USD", "INIT/USD", "TIA/USD"})
	o.L2.T = t
	o.L2.Speculate = spec
	o.L2.RestartEvery = mode.restartEvery
	c := &c15{run: scratchRun()}
	ts := int64(1_700_000_000_000_000_000)
	var log []string
	sensitive := 0
	for s := 0; s < steps; s++ {
		ts += int64(1 + rng.Intn(1000))
		if rng.Chance(15) {
			c.hostRefresh(o, rng, &log)
			continue
		}
		// every validator reports its own slightly different price for every pair: the median walks a map
		var specs []voteSpec
		for i := range o.Host {
			p := map[string]*big.Int{tsPair: big.NewInt(ts + int64(i))}
			for k, pair := range o.Pairs[:len(o.Pairs)-1] {
				if rng.Chance(90) {
					p[pair] = big.NewInt(int64(1000*(k+1) + rng.Intn(50)))
				}
			}
			specs = append(specs, voteSpec{Val: i, Flag: 2, Prices: p, Sig: sigValid})
		}
		cs := c15Case{kind: "honest-varied", specs: specs, height: uint64(o.HostHeight) + 1, round: int32(rng.Intn(2)), sender: o.Executors[0]}
		if rng.Chance(30) {
			cs = c.genCase(o, rng, ts)
		}
		c.deliver(o, cs, "7vals", true, &log)
		if rng.Chance(20) {
			// the same commit relayed a second time: stale by now, refused with whatever error the chain words
			c.deliver(o, cs, "7vals", true, &log)
		}
		for _, pair := range o.Pairs {
			t.Add("PRICE %s %v", pair, o.Prices()[pair])
		}
		sensitive++
	}
	t.Add("DIGEST %s", sim.Digest(o.L2.Dump()))
	return t.Lines, sensitive
}

// c18WallAnchor is the wall-clock instant (ns) at which the current group of replicas was started; it is part of the
// history's specification (identical for all replicas of a group), never of the verdict.
var c18WallAnchor atomic.Int64

// histOracleClock: oracle updates whose agreed L1 timestamps lie shortly before and after the moment the replicas run.
// The replicas of a group are started 0.8 s apart, so each of them executes the same messages at a different distance
// from those timestamps; whatever they answer must not depend on it.
func histOracleClock(seed uint64, steps int, mode replicaMode) ([]string, int) {
	spec := mode.spec
	rng := mon.NewRand(seed)
	t := &sim.Transcript{}
	o := newOracleEnv([]int64{10, 9, 8, 7}, []string{"BTC/USD", "ETH/USD", "ATOM/USD"})
	o.L2.T = t
	o.L2.Speculate = spec
	o.L2.RestartEvery = mode.restartEvery
	c := &c15{run: scratchRun()}
	anchor := c18WallAnchor.Load()
	var log []string
	n := 0
	for _, off := range []time.Duration{-time.Hour, 700 * time.Millisecond, 1500 * time.Millisecond, 2300 * time.Millisecond, 3100 * time.Millisecond, 4 * time.Second, 8 * time.Second, 365 * 24 * time.Hour} {
		ts := anchor + int64(off)
		var specs []voteSpec
		for i := range o.Host {
			p := map[string]*big.Int{tsPair: big.NewInt(ts)}
			for k, pair := range o.Pairs[:len(o.Pairs)-1] {
				p[pair] = big.NewInt(int64(1000*(k+1) + rng.Intn(50)))
			}
			specs = append(specs, voteSpec{Val: i, Flag: 2, Prices: p, Sig: sigValid})
		}
		c.deliver(o, c15Case{kind: "honest-varied", specs: specs, height: uint64(o.HostHeight) + 1, round: 0, sender: o.Executors[0]}, "4vals", true, &log)
		t.Add("after update stamped anchor%+v:", off)
		for _, pair := range o.Pairs {
			t.Add("PRICE %s %v", pair, o.Prices()[pair])
		}
		n++
	}
	t.Add("DIGEST %s", sim.Digest(o.L2.Dump()))
	return t.Lines, n
}

func histL1World(seed uint64, steps int, mode replicaMode) ([]string, int) {
	spec := mode.spec
	t := &sim.Transcript{}
	cfg := WorldCfg{Bridges: 4, Steps: steps, Periods: []time.Duration{time.Second, 3 * time.Second, 2 * time.Second, 10 * time.Second}}
	w := newL1World(scratchRun(), mon.NewRand(seed), MonSet{}, cfg)
	w.env.L1.T = t
	w.env.L1.Speculate = spec
	w.env.L1.RestartEvery = mode.restartEvery
	w.env.L1.Shadow = nil
	if spec {
		w.env.EnableShadow(seed)
	}
	w.Run()
	t.Add("EXPORT %s", l1ExportJSON(w.env.L1))
	t.Add("DIGEST %s", sim.Digest(w.env.L1.Dump()))
	// re-import and export again: iteration over many bridges
	if dst, err := importL1(w.env.L1); err == nil {
		t.Add("REEXPORT %s", l1ExportJSON(dst))
	} else {
		t.Add("REIMPORT err=%v", err)
	}
	return t.Lines, 2
}

// histPermHook: bridges with permissioned-channel metadata over channels that are missing / in use / taken, so that
// several listed channels are unusable for different reasons and error identity depends on the order of checks.
func histPermHook(seed uint64, steps int, mode replicaMode) ([]string, int) {
	spec := mode.spec
	r := mon.NewRand(seed)
	t := &sim.Transcript{}
	w := &c19World{run: scratchRun(), rng: r, env: newL1Env(0, nil), metadata: map[uint64][]byte{}, feat: map[string]int{}}
	w.env.L1.T = t
	w.env.L1.Speculate = spec
	w.env.L1.RestartEvery = mode.restartEvery
	w.env.L1.Shadow = nil
	if spec {
		w.env.EnableShadow(seed)
	}
	for i := 0; i < 5; i++ {
		w.channels = append(w.channels, ophosthook.PortChannelID{PortID: "transfer", ChannelID: fmt.Sprintf("channel-%d", i)})
	}
	w.channels = append(w.channels, ophosthook.PortChannelID{PortID: "nft-transfer", ChannelID: "channel-2"})
	// channel-0 fresh, channel-1 in use, channel-2 taken by a stranger, channel-3 fresh, channel-4 and nft missing
	l1 := w.env.L1
	l1.Chan.Set(l1.Ctx, "transfer", "channel-0", 1)
	l1.Chan.Set(l1.Ctx, "transfer", "channel-1", 5)
	l1.Chan.Set(l1.Ctx, "transfer", "channel-2", 1)
	_ = l1.Perm.SetAdmin(l1.Ctx, "transfer", "channel-2", sim.NewAccount("c19stranger").Addr)
	l1.Chan.Set(l1.Ctx, "transfer", "channel-3", 1)
	sensitive := 0
	for s := 0; s < steps; s++ {
		switch x := r.Intn(100); {
		case x < 30:
			w.opCreate()
			sensitive++
		case x < 65:
			w.opUpdateMetadata()
			sensitive++
		case x < 80:
			w.opUpdateChallenger()
		default:
			w.opChannel()
		}
	}
	t.Add("PERMS %s", tableString(l1.Perm.All(l1.Ctx)))
	t.Add("DIGEST %s", sim.Digest(l1.Dump()))
	return t.Lines, sensitive
}

// histGenesisDecoding: genesis documents as an operator might hand-write them (chain types in every spelling, partial and
// ambiguous names, numbers, wrong types) are decoded, validated and imported; every node must reach the same verdict and,
// where it accepts, the same state.
func histGenesisDecoding(seed uint64, steps int, mode replicaMode) ([]string, int) {
	t := &sim.Transcript{}
	src := newL1Env(2, []time.Duration{5 * time.Second, 7 * time.Second})
	base := string(l1ExportJSON(src.L1))
	cur := ""
	for _, cand := range []string{`"INITIA"`, `"CHAIN_TYPE_INITIA"`, `"initia"`} {
		if strings.Contains(base, `"chain_type":`+cand) {
			cur = `"chain_type":` + cand
		}
	}
	t.Add("BASE has chain type spelled %s", cur)
	n := 0
	for _, v := range []string{`"INITIA"`, `"initia"`, `"Celestia"`, `"CHAIN_TYPE_INITIA"`, `"tia"`, `"IA"`, `""`, `"A"`, `"UNSPECIFIED"`, `"unspecified"`, `"TYPE_INITIA"`, `"_"`, `1`, `2`, `0`, `99`, `"1"`, `null`, `true`, `["INITIA"]`, `"INITIA "`, `" INITIA"`} {
		doc := base
		if cur != "" {
			doc = strings.Replace(base, cur, `"chain_type":`+v, 1)
		}
		verdict := func() (out string) {
			defer func() {
				if r := recover(); r != nil {
					out = fmt.Sprintf("panic: %v", r)
				}
			}()
			dst := sim.NewL1(sim.L1Opts{})
			var gs ophosttypes.GenesisState
			if err := dst.Enc.Codec.UnmarshalJSON([]byte(doc), &gs); err != nil {
				return "decode error: " + err.Error()
			}
			if err := ophosttypes.ValidateGenesis(&gs, dst.AK.AddressCodec()); err != nil {
				return "validate error: " + err.Error()
			}
			dst.AK.InitGenesis(dst.Ctx, *src.L1.AK.ExportGenesis(src.L1.Ctx))
			dst.BK.InitGenesis(dst.Ctx, src.L1.BK.ExportGenesis(src.L1.Ctx))
			dst.K.InitGenesis(dst.Ctx, &gs)
			return "imported, state " + sim.Digest(dst.Dump(ophosttypes.StoreKey)) + " export " + sim.Digest([]sim.KV{{Value: l1ExportJSON(dst)}})
		}()
		t.Add("GENESIS chain_type=%s -> %s", v, verdict)
		n++
	}
	return t.Lines, n
}

// ---- out-of-process replica ----

var c18Hists = []c18History{{"two-chain", histTwoChain}, {"validators", histValidators}, {"oracle", histOracle}, {"l1-world", histL1World}, {"perm-hook", histPermHook}, {"oracle-clock", histOracleClock}, {"genesis-decoding", histGenesisDecoding}}

// C18Child is the entry point of the child process: it runs one history and writes its transcript to out.
func C18Child(name string, seed uint64, steps, modeIdx int, anchor int64, out string) error {
	c18WallAnchor.Store(anchor)
	for _, h := range c18Hists {
		if h.name == name {
			lines, _ := h.f(seed, steps, modeOf(modeIdx))
			return os.WriteFile(out, []byte(strings.Join(lines, "\x00")), 0o644)
		}
	}
	return fmt.Errorf("no such history %q", name)
}

type c18Child struct {
	cmd *exec.Cmd
	out string
	log *bytes.Buffer
}

func startC18Child(name string, seed uint64, steps, modeIdx int, anchor int64) *c18Child {
	dir := filepath.Join(verifDir(), ".work", "c18")
	_ = os.MkdirAll(dir, 0o755)
	out := filepath.Join(dir, fmt.Sprintf("replica-%d-%s-%d.txt", os.Getpid(), name, seed))
	cmd := exec.Command(os.Args[0], "__c18replica__", name, fmt.Sprint(seed), fmt.Sprint(steps), fmt.Sprint(modeIdx), fmt.Sprint(anchor), out)
	zone := []string{"Asia/Tokyo", "America/New_York", "Asia/Kathmandu"}[modeIdx%3]
	cmd.Env = append(os.Environ(), "TZ="+zone, fmt.Sprintf("GOMAXPROCS=%d", 1+modeIdx%2))
	c := &c18Child{cmd: cmd, out: out, log: &bytes.Buffer{}}
	cmd.Stdout, cmd.Stderr = c.log, c.log
	if err := cmd.Start(); err != nil {
		c.cmd = nil
		c.log.WriteString(err.Error())
	}
	return c
}

func (c *c18Child) wait() ([]string, error) {
	if c.cmd == nil {
		return nil, fmt.Errorf("start failed: %s", c.log.String())
	}
	defer os.Remove(c.out)
	if err := c.cmd.Wait(); err != nil {
		return nil, fmt.Errorf("%v: %s", err, trunc(c.log.String(), 2000))
	}
	bz, err := os.ReadFile(c.out)
	if err != nil {
		return nil, err
	}
	return strings.Split(string(bz), "\x00"), nil
}

func checkC18(run *mon.Run, rng *mon.Rand, thorough bool) {
	run.Rule = "N fresh replicas (4 quick, 16 thorough) execute the same seeded history - half of them one after the other, half concurrently in their own goroutines (thorough tier under the race detector) - and the complete transcripts (every response, full error string, gas, event list in order, validator-update lists in order, store digest after every block, genesis exports) are compared line by line with replica 0. Each replica is an independent draw of Go's randomised map iteration orders and runs at a different wall-clock time; one further replica per history runs in a process of its own with TZ=Asia/Tokyo, America/New_York or Asia/Kathmandu (embedded tzdata) and GOMAXPROCS 1 or 2. Histories: two-chain bridge traffic with multi-message transactions, validator bursts with >=3 removals per block and executor-change plans, 7-validator x 6-pair oracle updates, 4-bridge L1 world with export/re-import. Distinct non-trivial = (history kind, seed) whose transcripts contained order-sensitive steps on all replicas"
	run.Assumptions = []string{"an unsorted 3-element map iteration is caught with probability 1-(1/6)^(N-1) per order-sensitive step", "telemetry timers are not state", "the harness itself is deterministic given the seed (checked implicitly: any harness nondeterminism would also show up as a mismatch)"}
	for _, c := range []string{"C18.replicas_identical", "C18.concurrent_replicas_identical", "C18.other_process_replica_identical"} {
		run.Declare(c, 4)
	}
	hists := c18Hists
	N := pick(thorough, 4, 16)
	seeds := pick(thorough, 2, 3)
	steps := pick(thorough, 150, 200)
	totalSensitive := 0
	for _, h := range hists {
		for k := 0; k < seeds && !run.TooMany(); k++ {
			seed := rng.U64()
			transcripts := make([][]string, N)
			sens := make([]int, N)
			c18WallAnchor.Store(time.Now().UnixNano())
			// one more replica runs in a process of its own (another time zone, another GOMAXPROCS, another address space),
			// started now so that it overlaps with the in-process replicas
			child := startC18Child(h.name, seed, steps, N+k, c18WallAnchor.Load())
			// first half sequentially
			for i := 0; i < N/2; i++ {
				if h.name == "oracle-clock" && i > 0 {
					time.Sleep(800 * time.Millisecond) // workload spacing only; no verdict depends on it
				}
				transcripts[i], sens[i] = h.f(seed, steps, modeOf(i))
				run.Evaluations++
			}
			// second half concurrently, while other goroutines of the process serve queries on chains of their own (a node
			// answers gRPC queries while it executes blocks): nothing a query touches may be shared with execution
			stopLoad := startQueryLoad(4)
			var wg sync.WaitGroup
			for i := N / 2; i < N; i++ {
				wg.Add(1)
				go func(i int) {
					defer wg.Done()
					transcripts[i], sens[i] = h.f(seed, steps, modeOf(i))
				}(i)
			}
			wg.Wait()
			run.CountN("query_load_calls", stopLoad())
			run.Evaluations += N - N/2
			if lines, err := child.wait(); err != nil {
				panic(fmt.Sprintf("the out-of-process replica of history %s could not be run: %v", h.name, err)) // INCONCLUSIVE
			} else {
				transcripts = append(transcripts, lines)
				run.Evaluations++
			}
			for i := 1; i < len(transcripts); i++ {
				same, at := len(transcripts[i]) == len(transcripts[0]), -1
				for j := 0; j < minInt(len(transcripts[i]), len(transcripts[0])); j++ {
					if transcripts[i][j] != transcripts[0][j] {
						same, at = false, j
						break
					}
				}
				clause := "C18.replicas_identical"
				if i >= N/2 {
					clause = "C18.concurrent_replicas_identical"
				}
				if i == N {
					clause = "C18.other_process_replica_identical"
				}
				detail := ""
				if at >= 0 {
					detail = firstDiff(transcripts[0][at], transcripts[i][at])
				} else if !same {
					detail = fmt.Sprintf("transcript lengths differ: %d vs %d", len(transcripts[0]), len(transcripts[i]))
				}
				ctx := []string{fmt.Sprintf("history %s seed %d replica %d vs replica 0, first differing transcript line %d", h.name, seed, i, at), detail}
				if at > 0 {
					ctx = append(ctx, "previous line: "+trunc(transcripts[0][at-1], 400))
				}
				run.Check(clause, same, "c18.replica_mismatch."+h.name, ctx, "replica %d of history %s diverges from replica 0 at transcript line %d: %s", i, h.name, at, trunc(detail, 600))
			}
			totalSensitive += sens[0]
			if sens[0] > 0 {
				run.Distinct(fmt.Sprintf("%s/%d", h.name, seed))
			}
			run.CountN("transcript_lines."+h.name, len(transcripts[0]))
			if k == 0 {
				run.Sample(map[string]interface{}{"history": h.name, "seed": seed, "transcript_lines": len(transcripts[0]), "line_example": trunc(transcripts[0][len(transcripts[0])/2], 300)})
			}
		}
	}
	run.Extra["replicas"] = N
	run.Extra["order_sensitive_steps"] = totalSensitive
	_ = ophosttypes.ModuleName
}

func trunc(s string, n int) string {
	if len(s) > n {
		return s[:n] + "..."
	}
	return s
}

// startQueryLoad starts g goroutines, each with an L1 and an L2 chain of its own, that keep asking the modules' query
// servers (and through them the pure format functions) until stop is called; stop returns the number of queries served.
func startQueryLoad(g int) (stop func() int) {
	var quit atomic.Bool
	var calls atomic.Int64
	var wg sync.WaitGroup
	for i := 0; i < g; i++ {
		wg.Add(1)
		go func(i int) {
			defer wg.Done()
			defer func() { _ = recover() }() // the load is not under test; a crash in it ends this generator only
			env := newL1Env(2, nil)
			for k, d := range env.Denoms {
				env.Deposit(env.Users[k%len(env.Users)], 1+uint64(k%2), "l2recipient", d, math.NewInt(int64(k)), nil)
			}
			l2 := newL2Env(L2EnvOpts{})
			l2.L2.Deliver(l2.DepositMsg(l2.Executors[0], 1, "l1s", l2.Users[0].String(), "uinit", math.NewInt(5), nil))
			l1 := env.L1
			for n := 0; !quit.Load(); n++ {
				d := env.Denoms[n%len(env.Denoms)]
				b := 1 + uint64(n%2)
				_, _ = l1.Q.TokenPairByL1Denom(l1.Ctx, &ophosttypes.QueryTokenPairByL1DenomRequest{BridgeId: b, L1Denom: d})
				_, _ = l1.Q.TokenPairs(l1.Ctx, &ophosttypes.QueryTokenPairsRequest{BridgeId: b})
				_, _ = l1.Q.Bridge(l1.Ctx, &ophosttypes.QueryBridgeRequest{BridgeId: b})
				_, _ = l1.Q.LastFinalizedOutput(l1.Ctx, &ophosttypes.QueryLastFinalizedOutputRequest{BridgeId: b})
				_, _ = l1.Q.NextL1Sequence(l1.Ctx, &ophosttypes.QueryNextL1SequenceRequest{BridgeId: b})
				_, _ = l1.Q.Claimed(l1.Ctx, &ophosttypes.QueryClaimedRequest{BridgeId: b, WithdrawalHash: make([]byte, 32)})
				_, _ = l2.L2.Q.BaseDenom(l2.L2.Ctx, &opchildtypes.QueryBaseDenomRequest{Denom: l2.L2Denom("uinit")})
				_, _ = l2.L2.Q.Validators(l2.L2.Ctx, &opchildtypes.QueryValidatorsRequest{})
				_, _ = l2.L2.Q.Params(l2.L2.Ctx, &opchildtypes.QueryParamsRequest{})
				_, _ = l2.L2.Q.NextL1Sequence(l2.L2.Ctx, &opchildtypes.QueryNextL1SequenceRequest{})
				calls.Add(10)
			}
		}(i)
	}
	return func() int {
		quit.Store(true)
		wg.Wait()
		return int(calls.Load())
	}
}
