// Package props holds one workload + oracle per property.
package props

import (
	"verifharness/mon"
)

// CheckFn runs one property's workload and records verdicts on run.
type CheckFn func(run *mon.Run, rng *mon.Rand, thorough bool)

type Entry struct {
	ID    string
	Level string
	Fn    CheckFn
}

var Registry = map[string]Entry{}

func register(id, level string, fn CheckFn) {
	Registry[id] = Entry{ID: id, Level: level, Fn: fn}
}

func pick(thorough bool, quick, deep int) int {
	if thorough {
		return deep
	}
	return quick
}
