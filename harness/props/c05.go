package props

import (
	"fmt"
	"math"
	"strings"
	"time"

	sdkmath "cosmossdk.io/math"

	ophosttypes "github.com/initia-labs/OPinit/x/ophost/types"

	"verifharness/mon"
	"verifharness/sim"
)

func init() { register("C05", "exploration", checkC05) }

var c05Periods = []time.Duration{1, 999_999_999, time.Second, 1500 * time.Millisecond, 10 * time.Second, time.Hour, 1 << 62,
	0, -1, -time.Second, -time.Hour, math.MinInt64, math.MaxInt64}

func checkC05(run *mon.Run, rng *mon.Rand, thorough bool) {
	run.Rule = "period lattice offered at creation (sub-second, huge, zero, negative) + seeded random timelines of propose/delete/re-propose/finalize/role changes whose block-time steps are drawn from a lattice aligned to each output's T0+P boundary (-1s, -1ns, 0, +1ns); three-valued finality model with a 1-second band. Distinct non-trivial = (operation, outcome, finality class) triples plus re-proposal indices"
	run.Assumptions = []string{"finality compared in exact integer nanoseconds; inside the 1s band either answer is accepted", "block times beyond year 4000 are not explored"}
	for _, c := range []string{"C05.positive_period_only", "C05.no_finalize_before_window", "C05.final_after_window", "C05.final_not_deletable", "C05.nonfinal_deletable",
		"C05.last_finalized_query", "C05.final_is_irreversible", "C05.proposal_starts_clock_now"} {
		run.Declare(c, 5)
	}
	run.Declare("C05.creation_lattice", len(c05Periods))
	for _, b := range []string{"==", "+1ns", ">", "<=-1s", "==-1s", "band"} {
		run.Declare("C05.boundary."+b, 1)
	}

	// ---- creation lattice: accepted => strictly positive ----
	env := newL1Env(0, nil)
	for _, p := range c05Periods {
		br := env.Branch()
		_, res := br.CreateBridge(env.Users[0], sim.NewAccount("p"), sim.NewAccount("c"), p, nil)
		run.Evaluations++
		run.Hit("C05.creation_lattice")
		run.Distinct(fmt.Sprintf("C05/create/period=%d/%s", int64(p), res.Class))
		if res.Class == sim.OK {
			run.Check("C05.positive_period_only", p > 0, "c05.nonpositive_period_accepted", []string{fmt.Sprintf("MsgCreateBridge FinalizationPeriod=%d ns", int64(p))}, "MsgCreateBridge accepted finalization period %s (%d ns)", p, int64(p))
		} else if p > 0 {
			run.Count("C05.positive_period_rejected")
		}
		// the same period through genesis validation
		cfg := bridgeConfig(env.Users[0].String(), env.Users[1].String(), p, nil)
		if err := cfg.ValidateWithNoAddrValidation(); err == nil {
			run.Check("C05.positive_period_only", p > 0, "c05.nonpositive_period_accepted_l2_validate", nil, "BridgeConfig.ValidateWithNoAddrValidation accepted period %d ns", int64(p))
		}
		_ = ophosttypes.ModuleName
		// the same period offered through a genesis file: the chain started from it must not carry such a bridge
		if p <= 0 {
			src := newL1Env(1, []time.Duration{10 * time.Second})
			gs := src.L1.K.ExportGenesis(src.L1.Ctx)
			gs.Bridges[0].BridgeConfig.FinalizationPeriod = p
			dst := sim.NewL1(sim.L1Opts{})
			dst.AK.InitGenesis(dst.Ctx, *src.L1.AK.ExportGenesis(src.L1.Ctx))
			dst.BK.InitGenesis(dst.Ctx, src.L1.BK.ExportGenesis(src.L1.Ctx))
			refused := func() (refused bool) {
				defer func() {
					if r := recover(); r != nil {
						refused = true
					}
				}()
				dst.K.InitGenesis(dst.Ctx, gs)
				return false
			}()
			run.Evaluations++
			cfg2, err := dst.K.GetBridgeConfig(dst.Ctx, 1)
			run.Check("C05.positive_period_only", refused || err != nil || cfg2.FinalizationPeriod > 0, "c05.nonpositive_period_accepted_by_genesis", []string{fmt.Sprintf("genesis with bridge 1 FinalizationPeriod=%d ns imported by InitGenesis", int64(p))}, "InitGenesis accepted a bridge with finalization period %s (%d ns): its outputs are final the moment they are proposed", p, int64(p))
			run.Distinct(fmt.Sprintf("C05/genesis/period=%d/refused=%v", int64(p), refused))
		}
	}

	c05ChainTypes(run, env)
	c05LongRange(run)
	c05Lattice(run, rng)

	// ---- timelines ----
	hist := pick(thorough, 30, 400)
	steps := pick(thorough, 250, 500)
	starts := []time.Duration{0, 1, 500 * time.Millisecond, 999_999_999}
	for h := 0; h < hist && !run.TooMany(); h++ {
		r := rng.Split()
		ps := []time.Duration{mon.Pick(r, c05Periods[:7]), mon.Pick(r, c05Periods[:6])}
		cfg := WorldCfg{Bridges: 2, Steps: steps, Periods: ps, StartTime: sim.GenesisTime.Add(mon.Pick(r, starts)),
			TimeSteps: []time.Duration{1, 999_999_999, 500 * time.Millisecond, 2 * time.Second},
			Weights:   map[string]int{"propose": 22, "delete": 14, "advance": 30, "finalize": 24, "role": 4, "deposit": 10, "create": 2}}
		w := newL1World(run, r, MonSet{C05: true}, cfg)
		w.Run()
		if h == 0 {
			n := len(w.log)
			if n > 25 {
				n = 25
			}
			run.Sample(map[string]interface{}{"history": 0, "periods": fmt.Sprint(ps), "first_steps": w.log[:n]})
		}
	}
	run.Extra["histories"] = hist
	run.Extra["period_lattice_ns"] = c05Periods
}

// c05Lattice drives one output of every accepted period to block times exactly at and
// one tick around T0+P and probes finalize / delete / query on branches.
func c05Lattice(run *mon.Run, rng *mon.Rand) {
	offsets := []time.Duration{-time.Second - 1, -time.Second, -time.Second + 1, -1, 0, 1, time.Second}
	for _, p := range c05Periods {
		if p <= 0 {
			continue
		}
		for _, frac := range []time.Duration{0, 1, 500 * time.Millisecond, 999_999_999} {
			env := newL1EnvAt(1, []time.Duration{p}, sim.GenesisTime.Add(frac))
			user := env.Users[1]
			if r := env.Deposit(user, 1, "l2", "uinit", sdkmath.NewInt(1000), nil); r.Class != sim.OK {
				panic(r.ErrString())
			}
			ws := []Withdrawal{{1, 1, "l2a", user.String(), "uinit", 10}, {1, 2, "l2b", user.String(), "uinit", 20}}
			o := env.ProposeTree(1, ws, 0, rng)
			t0 := env.L1.Time()
			for _, off := range offsets {
				target := t0.Add(p).Add(off)
				if target.Before(t0) || target.Year() > 4000 {
					continue
				}
				f := finalityAt(target, t0, p)
				tr := []string{fmt.Sprintf("period=%dns proposed_at=%s block_time=%s (T0+P%+dns) model=%d", int64(p), t0.Format(time.RFC3339Nano), target.Format(time.RFC3339Nano), int64(off), f)}
				// finalize
				b1 := env.Branch()
				b1.L1.SetTime(target)
				res := b1.L1.Deliver(o.Claim(0, user.String()))
				run.Evaluations++
				run.Hit("C05.boundary." + boundaryClass(off))
				if f == surelyNot {
					run.Check("C05.no_finalize_before_window", res.Class != sim.OK, "c05.finalized_too_early", tr, "withdrawal finalized %s before T0+P", -off)
				}
				if f == surelyFinal {
					run.Check("C05.final_after_window", res.Class == sim.OK, "c05.valid_claim_rejected_after_window", tr, "valid claim rejected at T0+P%+d ns: %s", int64(off), res.ErrString())
				}
				// delete
				b2 := env.Branch()
				b2.L1.SetTime(target)
				dres := b2.L1.Deliver(ophosttypes.NewMsgDeleteOutput(env.Bridges[1].Challenger.String(), 1, 1))
				run.Evaluations++
				if f == surelyFinal {
					run.Check("C05.final_not_deletable", dres.Class != sim.OK, "c05.deleted_final_output", tr, "final output deleted at T0+P%+d ns", int64(off))
				}
				if f == surelyNot {
					run.Check("C05.nonfinal_deletable", dres.Class == sim.OK, "c05.nonfinal_not_deletable", tr, "non-final output could not be deleted: %s", dres.ErrString())
				}
				// query
				lf, err := b1.L1.Q.LastFinalizedOutput(b1.L1.Ctx, &ophosttypes.QueryLastFinalizedOutputRequest{BridgeId: 1})
				if f != band {
					want := uint64(0)
					if f == surelyFinal {
						want = 1
					}
					run.Check("C05.last_finalized_query", err == nil && lf.OutputIndex == want, "c05.last_finalized", tr, "LastFinalizedOutput=%v, expected index %d", lf, want)
				}
				// "the last-finalized-output query always names the highest final index": in a block in which the chain pays a
				// withdrawal against the output, or refuses its deletion because it is final, the query names it (also
				// inside the one-second band: whichever way the chain decides there, it decides one way)
				if err == nil && (res.Class == sim.OK || (dres.Class != sim.OK && strings.Contains(dres.ErrString(), "finalized"))) {
					run.Check("C05.last_finalized_query", lf.OutputIndex >= 1, "c05.query_behind_finality", tr, "the chain treats output 1 as final in this block (claim %s, deletion %s %s) but LastFinalizedOutput names index %d", res.Class, dres.Class, dres.ErrString(), lf.OutputIndex)
				}
				// self-consistency once the chain has shown the output as final (also inside the one-second band):
				// after a withdrawal was paid against it, or after the query named it, it can no longer be deleted
				if res.Class == sim.OK {
					d2 := b1.L1.Deliver(ophosttypes.NewMsgDeleteOutput(env.Bridges[1].Challenger.String(), 1, 1))
					run.Evaluations++
					run.Check("C05.final_is_irreversible", d2.Class != sim.OK, "c05.deleted_after_payout", tr, "output deleted after a withdrawal had been finalized against it (T0+P%+d ns)", int64(off))
				}
				if err == nil && lf.OutputIndex >= 1 {
					b3 := env.Branch()
					b3.L1.SetTime(target)
					d3 := b3.L1.Deliver(ophosttypes.NewMsgDeleteOutput(env.Bridges[1].Challenger.String(), 1, 1))
					run.Evaluations++
					run.Check("C05.final_is_irreversible", d3.Class != sim.OK, "c05.deleted_while_query_says_final", tr, "output deleted in a block in which LastFinalizedOutput names it (T0+P%+d ns)", int64(off))
				}
				run.Distinct(fmt.Sprintf("C05/lattice/p=%d/frac=%d/off=%d/%s/%s", int64(p), int64(frac), int64(off), res.Class, dres.Class))
			}
		}
	}
}

func boundaryClass(off time.Duration) string {
	switch {
	case off == 0:
		return "=="
	case off == 1:
		return "+1ns"
	case off > 1:
		return ">"
	case off == -time.Second:
		return "==-1s"
	case off < -time.Second:
		return "<=-1s"
	}
	return "band"
}

// c05ChainTypes: a non-positive period is refused whatever data-availability chain the bridge names for its batches.
func c05ChainTypes(run *mon.Run, env *L1Env) {
	for _, ct := range []ophosttypes.BatchInfo_ChainType{ophosttypes.BatchInfo_CHAIN_TYPE_CELESTIA, ophosttypes.BatchInfo_CHAIN_TYPE_UNSPECIFIED, ophosttypes.BatchInfo_ChainType(7)} {
		for _, p := range c05Periods {
			for _, submitter := range []string{env.Users[1].String(), "celestia1freeformsubmitter"} {
				cfg := bridgeConfig(env.Users[1].String(), env.Users[2].String(), p, nil)
				cfg.BatchInfo = ophosttypes.BatchInfo{Submitter: submitter, ChainType: ct}
				br := env.Branch()
				res := br.L1.Deliver(ophosttypes.NewMsgCreateBridge(env.Users[0].String(), cfg))
				run.Evaluations++
				tr := []string{fmt.Sprintf("MsgCreateBridge period=%d ns batch chain type=%s submitter=%s -> %s %s", int64(p), ct, submitter, res.Class, res.ErrString())}
				if res.Class == sim.OK {
					run.Check("C05.positive_period_only", p > 0, "c05.nonpositive_period_accepted.chain_type", tr, "MsgCreateBridge with batch chain type %s accepted finalization period %s", ct, p)
				}
				if err := cfg.ValidateWithNoAddrValidation(); err == nil {
					run.Check("C05.positive_period_only", p > 0, "c05.nonpositive_period_accepted_l2_validate.chain_type", tr, "BridgeConfig.ValidateWithNoAddrValidation (batch chain type %s) accepted period %d ns", ct, int64(p))
				}
				run.Distinct(fmt.Sprintf("C05/create/%s/period=%d/%s", ct, int64(p), res.Class))
			}
		}
	}
}

// c05LongRange: a deletion range that starts at a final output is refused however many pending outputs follow it, and
// the final outputs are what they were afterwards.
func c05LongRange(run *mon.Run) {
	for _, n := range []int{10, 64, 65, 70, 140} {
		period := 50 * time.Second
		env := newL1EnvAt(1, []time.Duration{period}, time.Unix(1_700_000_000, 0).UTC())
		roles := env.Bridges[1]
		const finalPrefix = 3
		for i := 1; i <= finalPrefix+n; i++ {
			if i == finalPrefix+1 {
				env.L1.NextBlock(period + time.Second) // outputs 1..3 are final from here on
			}
			r := c11Root(uint64(i), uint64(i*10), 0)
			if res := env.L1.Deliver(ophosttypes.NewMsgProposeOutput(roles.Proposer.String(), 1, uint64(i), uint64(i*10), r[:])); res.Class != sim.OK {
				panic(res.ErrString())
			}
		}
		before := fmt.Sprint(c11ReadLog(env.L1, 1))
		for _, from := range []uint64{1, 2, 3} {
			for _, who := range []string{roles.Challenger.String(), env.L1.Gov} {
				res := env.L1.Deliver(ophosttypes.NewMsgDeleteOutput(who, 1, from))
				run.Evaluations++
				after := fmt.Sprint(c11ReadLog(env.L1, 1))
				tr := []string{fmt.Sprintf("3 final outputs followed by %d pending ones; delete from %d -> %s %s", n, from, res.Class, res.ErrString())}
				run.Check("C05.final_not_deletable", res.Class != sim.OK, "c05.long_range_deleted_final_output", tr, "a deletion range starting at final output %d (followed by %d pending outputs) was accepted", from, n)
				run.Check("C05.final_is_irreversible", before == after || res.Class == sim.OK, "c05.long_range_changed_log", tr, "a refused deletion changed the output log")
				if res.Class == sim.OK {
					return
				}
			}
		}
		// the pending suffix itself can be challenged as a whole; the final prefix stays byte-identical and is still final
		res := env.L1.Deliver(ophosttypes.NewMsgDeleteOutput(roles.Challenger.String(), 1, finalPrefix+1))
		idx, outs := c11ReadLog(env.L1, 1)
		next, _ := env.L1.K.GetNextOutputIndex(env.L1.Ctx, 1)
		run.Evaluations++
		ok := res.Class == sim.OK && len(idx) == finalPrefix && next == finalPrefix+1
		for i := 0; ok && i < finalPrefix; i++ {
			r := c11Root(uint64(i+1), uint64((i+1)*10), 0)
			ok = idx[i] == uint64(i+1) && string(outs[i].OutputRoot) == string(r[:])
		}
		run.Check("C05.nonfinal_deletable", ok, "c05.long_range_pending_suffix", []string{fmt.Sprintf("delete from 4 with %d pending outputs -> %s %s; %d outputs left, next %d", n, res.Class, res.ErrString(), len(idx), next)}, "deleting the %d pending outputs after 3 final ones left %d outputs and next index %d", n, len(idx), next)
		lf, err := env.L1.Q.LastFinalizedOutput(env.L1.Ctx, &ophosttypes.QueryLastFinalizedOutputRequest{BridgeId: 1})
		run.Check("C05.last_finalized_query", err == nil && lf.OutputIndex == finalPrefix, "c05.long_range_last_finalized", nil, "after the challenge the last finalized output is %v (err %v), expected index 3", lf, err)
		run.Distinct(fmt.Sprintf("C05/long-range/%d", n))
	}
}
