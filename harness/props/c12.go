package props

import (
	"bytes"
	"encoding/hex"
	"fmt"
	"math/big"
	"strings"
	"time"

	"cosmossdk.io/math"
	sdk "github.com/cosmos/cosmos-sdk/types"
	authtypes "github.com/cosmos/cosmos-sdk/x/auth/types"
	banktypes "github.com/cosmos/cosmos-sdk/x/bank/types"

	opchildtypes "github.com/initia-labs/OPinit/x/opchild/types"
	ophosttypes "github.com/initia-labs/OPinit/x/ophost/types"

	"verifharness/mon"
	"verifharness/sim"
)

func init() { register("C12", "exploration", checkC12) }

type c12 struct {
	run *mon.Run
	rng *mon.Rand
}

type signerCand struct {
	relation string
	addr     string
}

// declaredSignerIs checks with the codec (the proto annotation is the source of truth) that msg's only signer is addr.
func declaredSignerIs(enc sim.EncodingConfig, msg sdk.Msg, addr string) bool {
	signers, _, err := enc.Codec.GetMsgV1Signers(msg)
	if err != nil || len(signers) != 1 {
		return false
	}
	a, err := sdk.AccAddressFromBech32(addr)
	if err != nil {
		return false
	}
	return bytes.Equal(signers[0], a)
}

func (c *c12) probe(chain string, enc sim.EncodingConfig, deliver func(sdk.Msg) sim.Result, msgName string, msg sdk.Msg, cand signerCand, allowed bool, tr []string) {
	run := c.run
	if !run.Check("C12.declared_signer_is_role_field", declaredSignerIs(enc, msg, cand.addr), "c12.signer_annotation."+msgName, tr, "%s: the signer declared by the message's proto annotation is not the field the handler authorises", msgName) {
		return
	}
	res := deliver(msg)
	run.Evaluations++
	cell := fmt.Sprintf("%s/%s/%s/allowed=%v", chain, msgName, cand.relation, allowed)
	run.Distinct(cell)
	if allowed {
		run.Hit("C12.cell_allowed." + chain + "." + msgName)
	}
	ptr := append(append([]string(nil), tr...), fmt.Sprintf("probe %s signed by %s (%s): expected allowed=%v -> %s %s", msgName, cand.relation, short(cand.addr), allowed, res.Class, res.ErrString()))
	if allowed {
		run.Check("C12.role_holder_accepted", res.Class == sim.OK, "c12.holder_rejected."+msgName+"."+cand.relation, ptr, "%s by current %s rejected: %s", msgName, cand.relation, res.ErrString())
	} else {
		run.Check("C12.non_holder_rejected", res.Class != sim.OK, "c12.non_holder_accepted."+msgName+"."+cand.relation, ptr, "%s accepted from %s who holds no allowed role", msgName, cand.relation)
	}
}

// ---------------- L1 ----------------

func (c *c12) l1Matrix(env *L1Env, past map[string][]string, log []string) {
	l1 := env.L1
	r1, r2 := env.Bridges[1], env.Bridges[2]
	cands := []signerCand{
		{"gov", l1.Gov},
		{"current-proposer", r1.Proposer.String()},
		{"current-challenger", r1.Challenger.String()},
		{"other-bridge-proposer", r2.Proposer.String()},
		{"other-bridge-challenger", r2.Challenger.String()},
		{"stranger0", sim.NewAccount("stranger0").String()},
		{"stranger1", sim.NewAccount("stranger1").String()},
		{"bridge-creator", env.Users[0].String()},
	}
	for i, p := range past["proposer"] {
		cands = append(cands, signerCand{fmt.Sprintf("past-proposer-%d", minInt(i, 2)), p})
	}
	for i, p := range past["challenger"] {
		cands = append(cands, signerCand{fmt.Sprintf("past-challenger-%d", minInt(i, 2)), p})
	}
	isGov := func(a string) bool { return a == l1.Gov }
	isP := func(a string) bool { return a == r1.Proposer.String() }
	isC := func(a string) bool { return a == r1.Challenger.String() }
	// make sure a non-final output exists to delete
	base := env.Branch()
	next := base.NextOutputIndex(1)
	if res := base.L1.Deliver(ophosttypes.NewMsgProposeOutput(r1.Proposer.String(), 1, next, base.Bridges[1].LastL2+1, bytes.Repeat([]byte{7}, 32))); res.Class != sim.OK {
		c.run.Fail("C12.role_holder_accepted", "c12.setup_propose", log, "setup proposal by current proposer failed: %s", res.ErrString())
		return
	}
	base.Bridges[1].LastL2++
	delIdx := next
	next++
	fresh := sim.NewAccount(fmt.Sprintf("fresh%d", c.rng.Intn(1_000_000))).String()
	cur, err := base.L1.K.GetBridgeConfig(base.L1.Ctx, 1)
	if err != nil {
		panic(err)
	}
	curParams := base.L1.K.GetParams(base.L1.Ctx)
	for _, cand := range cands {
		x := cand.addr
		type pm struct {
			name    string
			msg     sdk.Msg
			allowed bool
		}
		params := ophosttypes.Params{RegistrationFee: sdk.NewCoins(sdk.NewCoin("uinit", math.NewInt(3)))}
		probes := []pm{
			{"MsgProposeOutput", ophosttypes.NewMsgProposeOutput(x, 1, next, base.Bridges[1].LastL2+1, bytes.Repeat([]byte{9}, 32)), isP(x)},
			{"MsgDeleteOutput", ophosttypes.NewMsgDeleteOutput(x, 1, delIdx), isGov(x) || isP(x) || isC(x)},
			{"MsgUpdateProposer", ophosttypes.NewMsgUpdateProposer(x, 1, fresh), isGov(x) || isP(x)},
			{"MsgUpdateChallenger", ophosttypes.NewMsgUpdateChallenger(x, 1, fresh), isGov(x) || isC(x)},
			// the signer names itself as the successor (a check made against the proposed instead of the stored holder)
			{"MsgUpdateProposer(self)", ophosttypes.NewMsgUpdateProposer(x, 1, x), isGov(x) || isP(x)},
			{"MsgUpdateChallenger(self)", ophosttypes.NewMsgUpdateChallenger(x, 1, x), isGov(x) || isC(x)},
			// the update changes nothing (names the current holder / repeats the stored value): who may send it is the same
			{"MsgUpdateProposer(no change)", ophosttypes.NewMsgUpdateProposer(x, 1, cur.Proposer), isGov(x) || isP(x)},
			{"MsgUpdateChallenger(no change)", ophosttypes.NewMsgUpdateChallenger(x, 1, cur.Challenger), isGov(x) || isC(x)},
			{"MsgUpdateBatchInfo(no change)", ophosttypes.NewMsgUpdateBatchInfo(x, 1, cur.BatchInfo), isGov(x) || isP(x)},
			{"MsgUpdateMetadata(no change)", ophosttypes.NewMsgUpdateMetadata(x, 1, cur.Metadata), isGov(x) || isP(x)},
			{"MsgUpdateOracleConfig(no change)", ophosttypes.NewMsgUpdateOracleConfig(x, 1, cur.OracleEnabled), isGov(x) || isP(x)},
			{"MsgUpdateParams(no change)", ophosttypes.NewMsgUpdateParams(x, &curParams), isGov(x)},
			{"MsgUpdateBatchInfo", ophosttypes.NewMsgUpdateBatchInfo(x, 1, ophosttypes.BatchInfo{Submitter: fresh, ChainType: ophosttypes.BatchInfo_CHAIN_TYPE_CELESTIA}), isGov(x) || isP(x)},
			{"MsgUpdateMetadata", ophosttypes.NewMsgUpdateMetadata(x, 1, []byte("meta")), isGov(x) || isP(x)},
			{"MsgUpdateOracleConfig", ophosttypes.NewMsgUpdateOracleConfig(x, 1, true), isGov(x) || isP(x)},
			{"MsgUpdateParams", ophosttypes.NewMsgUpdateParams(x, &params), isGov(x)},
		}
		for _, p := range probes {
			br := base.Branch()
			c.probe("L1", l1.Enc, func(m sdk.Msg) sim.Result { return br.L1.Deliver(m) }, p.name, p.msg, cand, p.allowed, log)
			if c.run.TooMany() {
				return
			}
		}
	}
}

func (c *c12) l1(thorough bool) {
	states := pick(thorough, 200, 8000)
	env := newL1Env(2, []time.Duration{time.Hour, time.Hour})
	env.EnableShadow(c.rng.U64())
	past := map[string][]string{}
	var log []string
	for s := 0; s < states && !c.run.TooMany(); s++ {
		c.l1Matrix(env, past, tail(log, 20))
		// rotate a role on bridge 1 (or 2), by gov or by the current holder
		b := uint64(1 + c.rng.Intn(2))
		r := env.Bridges[b]
		na := sim.NewAccount(fmt.Sprintf("rot%d-%d", s, c.rng.Intn(1000)))
		// sometimes hand a role back to a past holder, or give both roles to one account
		if b == 1 && len(past["proposer"]) > 0 && c.rng.Chance(20) {
			na = sim.Account{Name: "returning", Addr: sdk.MustAccAddressFromBech32(past["proposer"][0])}
		}
		if c.rng.Bool() {
			by := mon.Pick(c.rng, []string{env.L1.Gov, r.Proposer.String()})
			old := r.Proposer.String()
			res := env.L1.Deliver(ophosttypes.NewMsgUpdateProposer(by, b, na.String()))
			log = append(log, fmt.Sprintf("rotate proposer of bridge %d -> %s (%s)", b, short(na.String()), res.Class))
			if res.Class == sim.OK {
				if b == 1 {
					past["proposer"] = append(past["proposer"], old)
				}
				r.Proposer = na
			}
		} else {
			by := mon.Pick(c.rng, []string{env.L1.Gov, r.Challenger.String()})
			old := r.Challenger.String()
			res := env.L1.Deliver(ophosttypes.NewMsgUpdateChallenger(by, b, na.String()))
			log = append(log, fmt.Sprintf("rotate challenger of bridge %d -> %s (%s)", b, short(na.String()), res.Class))
			if res.Class == sim.OK {
				if b == 1 {
					past["challenger"] = append(past["challenger"], old)
				}
				r.Challenger = na
			}
		}
		{ // immediately after the rotation: the new holder can act, the one just replaced cannot
			r1 := env.Bridges[1]
			nxt := env.NextOutputIndex(1)
			for _, cand := range []signerCand{{"proposer-now", r1.Proposer.String()}, {"challenger-now", r1.Challenger.String()}} {
				br := env.Branch()
				isP := cand.addr == r1.Proposer.String()
				c.probe("L1", env.L1.Enc, func(m sdk.Msg) sim.Result { return br.L1.Deliver(m) }, "MsgProposeOutput(immediately-after-rotation)",
					ophosttypes.NewMsgProposeOutput(cand.addr, 1, nxt, r1.LastL2+1, bytes.Repeat([]byte{3}, 32)), cand, isP, tail(log, 6))
			}
			if n := len(past["proposer"]); n > 0 {
				old := past["proposer"][n-1]
				if old != r1.Proposer.String() {
					br := env.Branch()
					c.probe("L1", env.L1.Enc, func(m sdk.Msg) sim.Result { return br.L1.Deliver(m) }, "MsgProposeOutput(immediately-after-rotation)",
						ophosttypes.NewMsgProposeOutput(old, 1, nxt, r1.LastL2+1, bytes.Repeat([]byte{3}, 32)), signerCand{"proposer-just-replaced", old}, false, tail(log, 6))
				}
			}
		}
		if len(past["proposer"]) > 4 {
			past["proposer"] = past["proposer"][len(past["proposer"])-4:]
		}
		if len(past["challenger"]) > 4 {
			past["challenger"] = past["challenger"][len(past["challenger"])-4:]
		}
		if c.rng.Chance(30) {
			env.L1.NextBlock(time.Second)
		}
	}
	c.run.Extra["l1_states"] = states
}

// ---------------- L2 ----------------

func (c *c12) l2Matrix(o *OracleEnv, admin string, execs []string, pastExecs, pastAdmins []string, ts int64, log []string) {
	l2 := o.L2
	in := func(a string, list []string) bool {
		for _, x := range list {
			if x == a {
				return true
			}
		}
		return false
	}
	cands := []signerCand{{"module-authority", l2.Authority}, {"admin", admin}, {"stranger0", sim.NewAccount("stranger0").String()}, {"stranger1", sim.NewAccount("stranger1").String()}, {"user", o.Users[0].String()}}
	for i, e := range execs {
		cands = append(cands, signerCand{fmt.Sprintf("executor-%d", minInt(i, 2)), e})
		// another account whose (longer or shorter) address merely begins with / is the beginning of the executor's
		if eb, err := sdk.AccAddressFromBech32(e); err == nil && i == 0 {
			longer := sdk.AccAddress(append(append([]byte(nil), eb...), 0xAA, 0xBB, 0xCC, 0xDD, 1, 2, 3, 4, 5, 6, 7, 8)).String()
			if !in(longer, execs) {
				cands = append(cands, signerCand{"address-extending-an-executors", longer})
			}
			if len(eb) > 20 {
				if shorter := sdk.AccAddress(eb[:20]).String(); !in(shorter, execs) {
					cands = append(cands, signerCand{"20-byte-prefix-of-an-executors-address", shorter})
				}
			}
		}
	}
	for i, e := range pastExecs {
		if !in(e, execs) {
			cands = append(cands, signerCand{fmt.Sprintf("past-executor-%d", minInt(i, 2)), e})
		}
	}
	for i, a := range pastAdmins {
		if a != admin {
			cands = append(cands, signerCand{fmt.Sprintf("past-admin-%d", minInt(i, 1)), a})
		}
	}
	// a validator that exists (to remove) and fees to spend
	svals := (&valWorld{run: c.run, e: o.L2Env, pfx: "C12"}).stateValidators()
	if len(svals) == 0 {
		return
	}
	nextSeq := o.NextL1Seq()
	if nextSeq == 1 {
		// make sure an already processed sequence exists, so that replays can be probed too
		for _, ex := range execs {
			if r := o.L2.Deliver(o.DepositMsg(sim.Account{Addr: sdk.MustAccAddressFromBech32(ex)}, 1, "l1from", o.Users[1].String(), "uinit", math.NewInt(5), nil)); r.Class == sim.OK {
				break
			}
		}
		nextSeq = o.NextL1Seq()
	}
	commit := o.BuildCommit(uint64(o.HostHeight)+1, 1, o.HonestSpecs(pricesAt(1_000_000, ts)))
	newVal := NewValKey(50 + c.rng.Intn(1000))
	params, _ := l2.K.GetParams(l2.Ctx)
	same, _ := l2.K.GetParams(l2.Ctx)
	params.HookMaxGas++
	for _, cand := range cands {
		x := cand.addr
		isAuth, isAdmin, isExec := x == l2.Authority, x == admin, in(x, execs)
		addMsg, _ := opchildtypes.NewMsgAddValidator("m", x, newVal.Operator.Val(), newVal.Pub)
		rmMsg, _ := opchildtypes.NewMsgRemoveValidator(x, svals[0].operator)
		innerAdd, _ := opchildtypes.NewMsgAddValidator("m", l2.Authority, newVal.Operator.Val(), newVal.Pub)
		exec, _ := opchildtypes.NewMsgExecuteMessages(x, []sdk.Msg{innerAdd})
		type pm struct {
			name    string
			msg     sdk.Msg
			allowed bool
		}
		probes := []pm{
			{"MsgFinalizeTokenDeposit", o.DepositMsg(sim.Account{Addr: sdk.MustAccAddressFromBech32(x)}, nextSeq, "l1from", o.Users[1].String(), "uinit", math.NewInt(5), nil), isExec},
			{"MsgFinalizeTokenDeposit(stale)", o.DepositMsg(sim.Account{Addr: sdk.MustAccAddressFromBech32(x)}, 1, "l1from", o.Users[1].String(), "uinit", math.NewInt(5), nil), isExec},
			{"MsgSetBridgeInfo", opchildtypes.NewMsgSetBridgeInfo(x, o.BridgeInfo(o.ClientID, true)), isExec},
			{"MsgUpdateOracle", opchildtypes.NewMsgUpdateOracle(x, uint64(o.HostHeight)+1, commit), isExec},
			{"MsgAddValidator", addMsg, isAuth},
			{"MsgRemoveValidator", rmMsg, isAuth},
			{"MsgUpdateParams", opchildtypes.NewMsgUpdateParams(x, &params), isAuth},
			{"MsgUpdateParams(no change)", opchildtypes.NewMsgUpdateParams(x, &same), isAuth},
			{"MsgSpendFeePool(nothing)", &opchildtypes.MsgSpendFeePool{Authority: x, Recipient: o.Users[2].String(), Amount: sdk.Coins{}}, isAuth},
			{"MsgSpendFeePool", &opchildtypes.MsgSpendFeePool{Authority: x, Recipient: o.Users[2].String(), Amount: sdk.NewCoins(sdk.NewCoin("ufee", math.NewInt(3)))}, isAuth},
			{"MsgExecuteMessages", exec, isAdmin},
		}
		for _, p := range probes {
			br := o.Branch()
			c.probe("L2", l2.Enc, func(m sdk.Msg) sim.Result { return br.L2.Deliver(m) }, p.name, p.msg, cand, p.allowed, log)
			if c.run.TooMany() {
				return
			}
		}
	}
}

// immediateExecutorProbe: right after a rotation (before anything else touches the keeper) the current executors can
// finalize the next deposit and set bridge info, and no former executor can.
func (c *c12) immediateExecutorProbe(o *OracleEnv, execs, pastExecs []string, log []string) {
	in := func(a string, list []string) bool {
		for _, x := range list {
			if x == a {
				return true
			}
		}
		return false
	}
	seen := map[string]bool{}
	for _, x := range append(append([]string{}, execs...), pastExecs...) {
		if seen[x] {
			continue
		}
		seen[x] = true
		allowed := in(x, execs)
		rel := "executor-just-appointed-or-kept"
		if !allowed {
			rel = "executor-just-rotated-out"
		}
		br := o.Branch()
		msg := o.DepositMsg(sim.Account{Addr: sdk.MustAccAddressFromBech32(x)}, o.NextL1Seq(), "l1from", o.Users[1].String(), "uinit", math.NewInt(5), nil)
		c.probe("L2", o.L2.Enc, func(m sdk.Msg) sim.Result { return br.L2.Deliver(m) }, "MsgFinalizeTokenDeposit(immediately-after-rotation)", msg, signerCand{rel, x}, allowed, log)
	}
}

// executeMessages: admin-only batched execution, module authority as sole inner signer, all-or-nothing.
func (c *c12) executeMessages(o *OracleEnv, admin string, log []string) {
	run := c.run
	l2 := o.L2
	v1, v2 := NewValKey(2001), NewValKey(2002)
	add := func(auth string, v ValKey) sdk.Msg {
		m, _ := opchildtypes.NewMsgAddValidator("m", auth, v.Operator.Val(), v.Pub)
		return m
	}
	modAcc := sdk.MustAccAddressFromBech32(l2.Authority)
	type tc struct {
		name   string
		inner  []sdk.Msg
		wantOK bool
		check  func(br *OracleEnv) (bool, string)
	}
	senders := map[string]string{} // case name -> sender of the batch, if not the admin
	stranger := sim.NewAccount("c12-batch-stranger").String()
	selfAppoint := func(who string) sdk.Msg {
		p, _ := l2.K.GetParams(l2.Ctx)
		p.Admin = who
		return opchildtypes.NewMsgUpdateParams(l2.Authority, &p)
	}
	adminIs := func(br *OracleEnv, who string) bool {
		p, _ := br.L2.K.GetParams(br.L2.Ctx)
		return p.Admin == who
	}
	hasVal := func(br *OracleEnv, v ValKey) bool {
		_, err := br.L2.Q.Validator(br.L2.Ctx, &opchildtypes.QueryValidatorRequest{ValidatorAddr: v.Operator.Val()})
		return err == nil
	}
	cases := []tc{
		{"two valid inner messages", []sdk.Msg{add(l2.Authority, v1), add(l2.Authority, v2)}, true, func(br *OracleEnv) (bool, string) {
			return hasVal(br, v1) && hasVal(br, v2), "both validators must exist"
		}},
		{"second inner message fails (duplicate)", []sdk.Msg{add(l2.Authority, v1), add(l2.Authority, v1)}, false, func(br *OracleEnv) (bool, string) {
			return !hasVal(br, v1), "first inner effect must not survive"
		}},
		{"inner signed by the admin", []sdk.Msg{add(admin, v1)}, false, nil},
		{"inner bank send from the admin", []sdk.Msg{banktypes.NewMsgSend(sdk.MustAccAddressFromBech32(admin), o.Users[0].Addr, sdk.NewCoins(sdk.NewCoin("ufee", math.NewInt(1))))}, false, nil},
		{"valid then foreign-signed", []sdk.Msg{add(l2.Authority, v1), add(o.Users[0].String(), v2)}, false, func(br *OracleEnv) (bool, string) { return !hasVal(br, v1), "first inner effect must not survive" }},
		{"authority-signed, then bank send from a user", []sdk.Msg{add(l2.Authority, v1), banktypes.NewMsgSend(o.Users[0].Addr, sdk.MustAccAddressFromBech32(admin), sdk.NewCoins(sdk.NewCoin("ufee", math.NewInt(1))))}, false, func(br *OracleEnv) (bool, string) {
			return !hasVal(br, v1), "the first inner effect must not survive"
		}},
		{"authority-signed, user bank send, authority-signed", []sdk.Msg{add(l2.Authority, v1), banktypes.NewMsgSend(o.Users[0].Addr, sdk.MustAccAddressFromBech32(admin), sdk.NewCoins(sdk.NewCoin("ufee", math.NewInt(1)))), add(l2.Authority, v2)}, false, nil},
		{"authority-signed, then withdrawal of a user's tokens", []sdk.Msg{add(l2.Authority, v1), opchildtypes.NewMsgInitiateTokenWithdrawal(o.Users[0].String(), "l1recipient", sdk.NewCoin(o.L2Denom("uinit"), math.NewInt(1)))}, false, nil},
		{"user bank send first, then authority-signed", []sdk.Msg{banktypes.NewMsgSend(o.Users[0].Addr, sdk.MustAccAddressFromBech32(admin), sdk.NewCoins(sdk.NewCoin("ufee", math.NewInt(1)))), add(l2.Authority, v1)}, false, nil},
		{"batch by a stranger whose inner message makes that stranger the admin", []sdk.Msg{selfAppoint(stranger)}, false, func(br *OracleEnv) (bool, string) {
			return adminIs(br, admin), "the admin must not change"
		}},
		{"batch by a stranger: valid inner message first, self-appointment last", []sdk.Msg{add(l2.Authority, v1), selfAppoint(stranger)}, false, func(br *OracleEnv) (bool, string) {
			return adminIs(br, admin) && !hasVal(br, v1), "nothing of the batch may survive"
		}},
		{"batch by the admin handing the admin role to somebody else", []sdk.Msg{selfAppoint(stranger)}, true, func(br *OracleEnv) (bool, string) {
			return adminIs(br, stranger), "the admin role must have moved"
		}},
		{"inner bank send from the module account", []sdk.Msg{banktypes.NewMsgSend(modAcc, o.Users[0].Addr, sdk.NewCoins(sdk.NewCoin("ufee", math.NewInt(1))))}, true, nil},
		{"nested execute-messages signed by admin inside", []sdk.Msg{func() sdk.Msg {
			m, _ := opchildtypes.NewMsgExecuteMessages(admin, []sdk.Msg{add(l2.Authority, v1)})
			return m
		}()}, false, nil},
		{"inner set-bridge-info by authority (not an executor)", []sdk.Msg{opchildtypes.NewMsgSetBridgeInfo(l2.Authority, o.BridgeInfo(o.ClientID, true))}, false, nil},
	}
	for _, t := range cases {
		sender := admin
		if strings.HasPrefix(t.name, "batch by a stranger") {
			sender = stranger
		}
		_ = senders
		msg, err := opchildtypes.NewMsgExecuteMessages(sender, t.inner)
		if err != nil {
			panic(err)
		}
		br := o.Branch()
		if t.name == "inner bank send from the module account" {
			br.L2.FundModule(opchildtypes.ModuleName, sdk.NewCoin("ufee", math.NewInt(10)))
		}
		if strings.Contains(t.name, "user") {
			// the user can afford what the batch would do on their behalf
			br.L2.Fund(o.Users[0].Addr, sdk.NewCoin("ufee", math.NewInt(10)), sdk.NewCoin(o.L2Denom("uinit"), math.NewInt(10)))
		}
		userBefore := br.L2.BK.GetAllBalances(br.L2.Ctx, o.Users[0].Addr).String()
		res := br.L2.Deliver(msg)
		run.Evaluations++
		if userAfter := br.L2.BK.GetAllBalances(br.L2.Ctx, o.Users[0].Addr).String(); strings.Contains(t.name, "user") {
			run.Check("C12.execute_messages_all_or_nothing", userAfter == userBefore, "c12.execute_messages_moved_user_funds."+t.name, append(append([]string(nil), log...), "MsgExecuteMessages by admin: "+t.name), "an admin batch moved a user's funds (%s -> %s): inner messages may only be signed by the module authority", userBefore, userAfter)
		}
		tr := append(append([]string(nil), log...), fmt.Sprintf("MsgExecuteMessages by admin: %s -> %s %s", t.name, res.Class, res.ErrString()))
		run.Check("C12.execute_messages_all_or_nothing", (res.Class == sim.OK) == t.wantOK, "c12.execute_messages."+t.name, tr, "MsgExecuteMessages (%s): expected success=%v, got %s %s", t.name, t.wantOK, res.Class, res.ErrString())
		if t.check != nil {
			ok, why := t.check(br)
			run.Check("C12.execute_messages_all_or_nothing", ok, "c12.execute_messages_effects."+t.name, tr, "MsgExecuteMessages (%s): %s", t.name, why)
		}
		run.Distinct("L2/execute/" + t.name)
		// the handler itself promises all-or-nothing (it runs the batch on its own branch): called directly, as another
		// module's keeper would call it, a refused batch must leave the caller's context untouched
		if !t.wantOK {
			b2 := o.Branch()
			if t.name == "inner bank send from the module account" {
				continue
			}
			before := sim.Digest(b2.L2.Dump())
			_, herr := func() (resp *opchildtypes.MsgExecuteMessagesResponse, err error) {
				defer func() {
					if r := recover(); r != nil {
						err = fmt.Errorf("panic: %v", r)
					}
				}()
				return b2.L2.MS.ExecuteMessages(b2.L2.Ctx.WithEventManager(sdk.NewEventManager()), msg)
			}()
			after := sim.Digest(b2.L2.Dump())
			if herr != nil {
				run.Check("C12.execute_messages_handler_level_atomic", before == after, "c12.execute_messages_partial."+t.name, tr, "MsgExecuteMessages (%s) returned an error but left effects of earlier inner messages in the caller's context", t.name)
			}
		}
	}
}

// binding: the L2's bridge binding can never be re-pointed.
func (c *c12) binding(thorough bool) {
	run := c.run
	for si, startClient := range []string{"", "07-tendermint-0", "07-tendermint-0"} {
		e := newL2Env(L2EnvOpts{NoBridgeInfo: true})
		ex := e.Executors[0].String()
		info := e.BridgeInfo(startClient, false)
		if si == 2 {
			// the L1 side's address format need not be this chain's bech32: the binding was made with a hex string
			info.BridgeAddr = "0x" + hex.EncodeToString(ophosttypes.BridgeAddress(info.BridgeId))
			startClient += " (bridge address bound as a hex string)"
		}
		if r := e.L2.Deliver(opchildtypes.NewMsgSetBridgeInfo(ex, info)); r.Class != sim.OK {
			run.Fail("C12.binding_fixed", "c12.first_binding_rejected", nil, "first SetBridgeInfo rejected: %s", r.ErrString())
			continue
		}
		type mut struct {
			name  string
			f     func(i *opchildtypes.BridgeInfo)
			allow bool
		}
		muts := []mut{
			{"identical", func(i *opchildtypes.BridgeInfo) {}, true},
			{"config changed (oracle flag, metadata)", func(i *opchildtypes.BridgeInfo) {
				i.BridgeConfig.OracleEnabled = true
				i.BridgeConfig.Metadata = []byte("x")
			}, true},
			{"bridge id", func(i *opchildtypes.BridgeInfo) { i.BridgeId++ }, false},
			{"bridge address", func(i *opchildtypes.BridgeInfo) { i.BridgeAddr = ophosttypes.BridgeAddress(i.BridgeId + 1).String() }, false},
			{"bridge address (hex string of another bridge's address)", func(i *opchildtypes.BridgeInfo) {
				i.BridgeAddr = "0x" + hex.EncodeToString(ophosttypes.BridgeAddress(i.BridgeId+1))
			}, false},
			{"bridge address (another account, L1 prefix)", func(i *opchildtypes.BridgeInfo) { i.BridgeAddr = wrongPrefixAddr(sim.NewAccount("other-escrow").Addr) }, false},
			{"bridge address (free text)", func(i *opchildtypes.BridgeInfo) { i.BridgeAddr = "bridge-two" }, false},
			{"bridge address (bech32 of another bridge)", func(i *opchildtypes.BridgeInfo) { i.BridgeAddr = ophosttypes.BridgeAddress(i.BridgeId + 2).String() }, false},
			{"bridge id zero", func(i *opchildtypes.BridgeInfo) { i.BridgeId = 0 }, false},
			{"L1 chain id", func(i *opchildtypes.BridgeInfo) { i.L1ChainId = "other-l1" }, false},
			{"L1 chain id (other case)", func(i *opchildtypes.BridgeInfo) { i.L1ChainId = strings.ToUpper(i.L1ChainId) }, false},
			{"L1 client id set", func(i *opchildtypes.BridgeInfo) { i.L1ClientId = "07-tendermint-7" }, si == 0},
			{"L1 client id cleared", func(i *opchildtypes.BridgeInfo) { i.L1ClientId = "" }, si == 0},
		}
		for _, m := range muts {
			ni := info
			m.f(&ni)
			br := e.Branch()
			res := br.L2.Deliver(opchildtypes.NewMsgSetBridgeInfo(ex, ni))
			run.Evaluations++
			tr := []string{fmt.Sprintf("binding set with client id %q; SetBridgeInfo with %s changed -> %s %s", startClient, m.name, res.Class, res.ErrString())}
			if m.allow {
				run.Check("C12.binding_refresh_allowed", res.Class == sim.OK, "c12.binding_refresh_rejected."+m.name, tr, "refreshing bridge info (%s) rejected: %s", m.name, res.ErrString())
			} else {
				run.Check("C12.binding_fixed", res.Class != sim.OK, "c12.binding_repointed."+m.name, tr, "the L2's bridge binding was re-pointed (%s)", m.name)
			}
			run.Distinct("L2/binding/" + startClient + "/" + m.name)
			// once a client id has been set it is fixed, too
			if m.name == "L1 client id set" && res.Class == sim.OK {
				ni2 := ni
				ni2.L1ClientId = "07-tendermint-8"
				r2 := br.L2.Deliver(opchildtypes.NewMsgSetBridgeInfo(ex, ni2))
				run.Check("C12.binding_fixed", r2.Class != sim.OK, "c12.binding_repointed.client_id_after_set", tr, "L1 client id changed after it had been set")
			}
		}
	}
}

func (c *c12) l2(thorough bool) {
	states := pick(thorough, 150, 6000)
	o := newOracleEnv([]int64{1, 1, 1}, []string{"BTC/USD"})
	o.EnableShadow(c.rng.U64()) // other transactions (incl. role changes) run on discarded branches before every probe
	l2 := o.L2
	l2.FundModule(authtypes.FeeCollectorName, sdk.NewCoin("ufee", math.NewInt(1_000_000)))
	admin := o.Admin.String()
	execs := []string{o.Executors[0].String(), o.Executors[1].String()}
	var pastExecs, pastAdmins []string
	var log []string
	pool := []sim.Account{o.Executors[0], o.Executors[1], sim.NewAccount("executorC"), sim.NewAccount("executorD"), sim.NewAccount("executorE")}
	if err, pv := l2.BeginBlock(1e9); err != nil || pv != nil {
		panic(fmt.Sprint(err, pv))
	}
	ts := int64(1_700_000_000_000_000_000)
	for s := 0; s < states && !c.run.TooMany(); s++ {
		ts += 1000
		c.l2Matrix(o, admin, execs, pastExecs, pastAdmins, ts, tail(log, 15))
		if s%5 == 0 {
			c.executeMessages(o, admin, tail(log, 15))
		}
		// rotation
		switch c.rng.Intn(4) {
		case 0: // executors via params
			p, _ := l2.K.GetParams(l2.Ctx)
			n := c.rng.Intn(4) // 0 = every executor is revoked
			if c.rng.Chance(15) {
				// the role goes to a 32-byte (module-derived) address
				pool = append(pool, sim.Account{Name: "executor-with-32-byte-address", Addr: sdk.AccAddress(ophosttypes.BridgeAddress(uint64(900 + s)))})
			}
			var list []string
			for len(list) < n {
				a := mon.Pick(c.rng, pool).String()
				dup := false
				for _, x := range list {
					dup = dup || x == a
				}
				if !dup {
					list = append(list, a)
				}
			}
			p.BridgeExecutors = list
			res := l2.Deliver(opchildtypes.NewMsgUpdateParams(l2.Authority, &p))
			log = append(log, fmt.Sprintf("executors via params -> %d (%s)", n, res.Class))
			if res.Class == sim.OK {
				pastExecs = append(pastExecs, execs...)
				execs = list
			}
		case 1: // admin via params
			p, _ := l2.K.GetParams(l2.Ctx)
			na := sim.NewAccount(fmt.Sprintf("admin%d", c.rng.Intn(5))).String()
			p.Admin = na
			res := l2.Deliver(opchildtypes.NewMsgUpdateParams(l2.Authority, &p))
			log = append(log, fmt.Sprintf("admin via params (%s)", res.Class))
			if res.Class == sim.OK {
				pastAdmins = append(pastAdmins, admin)
				admin = na
			}
		case 2: // executors via a change plan taking effect at the end of this block
			h := uint64(l2.Ctx.BlockHeight())
			nv := NewValKey(3000 + s)
			bz, _ := l2.Enc.Codec.MarshalInterfaceJSON(nv.Pub)
			list := []string{mon.Pick(c.rng, pool).String()}
			if c.rng.Chance(40) {
				// every validator slot is taken when the plan fires
				vs, _ := l2.Q.Validators(l2.Ctx, &opchildtypes.QueryValidatorsRequest{})
				p, _ := l2.K.GetParams(l2.Ctx)
				p.MaxValidators = uint32(len(vs.Validators))
				res := l2.Deliver(opchildtypes.NewMsgUpdateParams(l2.Authority, &p))
				log = append(log, fmt.Sprintf("max validators lowered to the current count %d (%s)", p.MaxValidators, res.Class))
			}
			err := l2.K.RegisterExecutorChangePlan(uint64(s+1), h, nv.Operator.Val(), "m", string(bz), "i", list)
			br := l2.EndBlock()
			_, _ = l2.BeginBlock(1e9)
			log = append(log, fmt.Sprintf("executors via plan at h=%d reg=%v end=%v/%v", h, err, br.EndErr, br.EngineErr))
			if err == nil && br.EndErr == nil {
				pastExecs = append(pastExecs, execs...)
				execs = list
			}
			// room again for the matrix's own add-validator probes
			if p, _ := l2.K.GetParams(l2.Ctx); p.MaxValidators != 100 {
				p.MaxValidators = 100
				l2.Deliver(opchildtypes.NewMsgUpdateParams(l2.Authority, &p))
			}
		default:
			l2.EndBlock()
			_, _ = l2.BeginBlock(1e9)
		}
		// a role change takes effect immediately: the very next gated message of the old and of the new holders
		c.immediateExecutorProbe(o, execs, pastExecs, tail(log, 6))
		if len(pastExecs) > 6 {
			pastExecs = pastExecs[len(pastExecs)-6:]
		}
		if len(pastAdmins) > 3 {
			pastAdmins = pastAdmins[len(pastAdmins)-3:]
		}
	}
	c.run.Extra["l2_states"] = states
	_ = big.NewInt
}

func checkC12(run *mon.Run, rng *mon.Rand, thorough bool) {
	run.Rule = "authorization matrix: in each of N states reached by random role rotations (L1: proposer/challenger updates by governance or the holder, roles handed back to past holders; L2: executor lists via params and via executor-change plans, admin changes) every permissioned message type (8 on L1, 8 on L2) is built valid in every other respect (next output index, a deletable non-final output, a quorum-signed oracle commit, an existing validator, a funded fee pool), its proto-declared signer checked to be the candidate, and delivered on a copy-on-write branch for every candidate signer (governance/module authority, current holders, past holders, same role on the other bridge, admin, strangers). Expected: success iff the role table allows it. Plus MsgExecuteMessages all-or-nothing cases and the L2 bridge-binding mutations. Distinct non-trivial = matrix cells (chain, message, signer relation, expected verdict)"
	run.Assumptions = []string{"role table maintained from successful rotation messages", "a probe's other fields are valid, so a rejection of an allowed signer is an authorization failure"}
	run.Declare("C12.execute_messages_handler_level_atomic", 4)
	for _, c := range []string{"C12.declared_signer_is_role_field", "C12.role_holder_accepted", "C12.non_holder_rejected", "C12.execute_messages_all_or_nothing", "C12.binding_fixed", "C12.binding_refresh_allowed"} {
		run.Declare(c, 4)
	}
	for _, m := range []string{"L1.MsgProposeOutput", "L1.MsgDeleteOutput", "L1.MsgUpdateProposer", "L1.MsgUpdateChallenger", "L1.MsgUpdateProposer(self)", "L1.MsgUpdateChallenger(self)", "L1.MsgUpdateProposer(no change)", "L1.MsgUpdateChallenger(no change)", "L1.MsgUpdateBatchInfo(no change)", "L1.MsgUpdateMetadata(no change)", "L1.MsgUpdateOracleConfig(no change)", "L1.MsgUpdateParams(no change)", "L1.MsgUpdateBatchInfo", "L1.MsgUpdateMetadata", "L1.MsgUpdateOracleConfig", "L1.MsgUpdateParams",
		"L2.MsgFinalizeTokenDeposit", "L2.MsgFinalizeTokenDeposit(stale)", "L2.MsgSetBridgeInfo", "L2.MsgUpdateOracle", "L2.MsgAddValidator", "L2.MsgRemoveValidator", "L2.MsgUpdateParams", "L2.MsgUpdateParams(no change)", "L2.MsgSpendFeePool", "L2.MsgExecuteMessages"} {
		run.Declare("C12.cell_allowed."+m, 5) // every message type must be seen succeeding for a legitimate holder
	}
	c := &c12{run: run, rng: rng}
	c.binding(thorough)
	c.l1(thorough)
	if run.TooMany() {
		return
	}
	c.l2(thorough)
	run.Sample(map[string]interface{}{"probe": "L1 MsgDeleteOutput signed by past-challenger-0 on bridge 1 (an existing non-final output) -> expected rejected"})
	run.Sample(map[string]interface{}{"probe": "L2 MsgUpdateOracle with a 3/3 signed commit, signed by an executor removed by the last plan -> expected rejected"})
}
