package props

import (
	"fmt"
	"math/big"
	"strings"
	"time"

	"cosmossdk.io/math"
	sdk "github.com/cosmos/cosmos-sdk/types"
	authtypes "github.com/cosmos/cosmos-sdk/x/auth/types"
	banktypes "github.com/cosmos/cosmos-sdk/x/bank/types"

	opchildtypes "github.com/initia-labs/OPinit/x/opchild/types"
	ophosttypes "github.com/initia-labs/OPinit/x/ophost/types"

	"verifharness/mon"
	"verifharness/ref"
	"verifharness/sim"
)

func init() { register("C08", "exploration", checkC08) }

type c08World struct {
	run *mon.Run
	rng *mon.Rand
	tc  *TwoChain
	log []string

	allDeposits []L1DepositEvent // every deposit event L1 ever emitted
	denoms      []string
	feat        map[string]int
	cuts3       int
	initial     map[string]*big.Int
}

func (w *c08World) tr() []string { return tail(w.log, 50) }
func (w *c08World) logf(f string, a ...interface{}) {
	w.log = append(w.log, fmt.Sprintf(f, a...))
}

// solvency evaluates the equation from boundary observations only.
func (w *c08World) solvency(where string) {
	tc := w.tc
	l1, l2 := tc.L1.L1, tc.L2.L2
	nextL1onL2 := tc.L2.NextL1Seq()
	for _, d := range w.denoms {
		l2d := ref.L2Denom(tc.Bridge, d)
		escrow := l1.BK.GetBalance(l1.Ctx, ophosttypes.BridgeAddress(tc.Bridge), d).Amount.BigInt()
		supply := l2.BK.GetSupply(l2.Ctx, l2d).Amount.BigInt()
		inflightDep := new(big.Int)
		for _, ev := range w.allDeposits {
			if ev.L1Denom == d && ev.Seq >= nextL1onL2 {
				inflightDep.Add(inflightDep, ev.Amount.BigInt())
			}
		}
		unpaid := new(big.Int)
		for _, ev := range tc.AllWithdrawals {
			if ev.BaseDenom != d {
				continue
			}
			leaf, ok := tc.ToLeaf(ev)
			if !ok {
				w.run.Fail("C08.solvency", "c08.unrepresentable_withdrawal", w.tr(), "withdrawal %v cannot be represented in a leaf", ev)
				continue
			}
			h := leaf.Leaf()
			c, err := l1.Q.Claimed(l1.Ctx, &ophosttypes.QueryClaimedRequest{BridgeId: tc.Bridge, WithdrawalHash: h[:]})
			if err == nil && !c.Claimed {
				unpaid.Add(unpaid, ev.Amount.BigInt())
			}
		}
		rhs := new(big.Int).Add(supply, inflightDep)
		rhs.Add(rhs, unpaid)
		w.run.Check("C08.solvency", tc.SeqAnomaly == "", "c08.l2_sequence_anomaly", w.tr(), "%s: the withdrawals L2 announces do not carry consecutive sequences (%s)", where, tc.SeqAnomaly)
		w.run.Check("C08.solvency", escrow.Cmp(rhs) == 0, "c08.solvency", w.tr(), "%s after %s: escrow %s != L2 supply %s + deposits in flight %s + unpaid withdrawals %s", d, where, escrow, supply, inflightDep, unpaid)
		if supply.Sign() > 0 && inflightDep.Sign() > 0 && unpaid.Sign() > 0 {
			w.cuts3++
		}
	}
}

func (w *c08World) hookData(signer sim.Account, good bool, l2denom string) []byte {
	return w.hookDataMsg(signer, good, l2denom, false)
}

// hookDataMsg: a hook signed by the deposit's recipient; it either transfers 1 unit on L2 or withdraws 1 unit back to L1.
func (w *c08World) hookDataMsg(signer sim.Account, good bool, l2denom string, withdraw bool) []byte {
	l2 := w.tc.L2.L2
	n, s, ok := l2.AccNumSeq(signer.Addr)
	if !ok {
		return w.rng.Bytes(30)
	}
	amt := math.NewInt(1)
	if !good {
		amt = math.NewInt(1 << 62).MulRaw(4) // overspend: the hook fails
	}
	var msg sdk.Msg = banktypes.NewMsgSend(signer.Addr, w.tc.L2.Users[5].Addr, sdk.NewCoins(sdk.NewCoin(l2denom, amt)))
	msgs := []sdk.Msg{msg}
	if withdraw {
		msgs = []sdk.Msg{opchildtypes.NewMsgInitiateTokenWithdrawal(signer.String(), w.tc.L1.Users[6].String(), sdk.NewCoin(l2denom, math.NewInt(1)))}
		if !good {
			// the withdrawal would succeed, the transfer after it cannot be paid: the whole hook must leave nothing behind
			msgs = append(msgs, msg)
		}
	}
	bz, err := l2.SignTx(signer, n, s, sim.L2ChainID, 300_000, msgs...)
	if err != nil {
		panic(err)
	}
	return bz
}

func (w *c08World) opL1Deposit() {
	tc := w.tc
	from := mon.Pick(w.rng, tc.L1.Users[:5])
	d := mon.Pick(w.rng, w.denoms)
	amt := math.NewInt(1 + int64(w.rng.Intn(1_000_000)))
	to := mon.Pick(w.rng, tc.L2.Users[:4])
	toStr := to.String()
	var data []byte
	kind := "good"
	switch w.rng.Intn(12) {
	case 0:
		toStr, kind = mon.Pick(w.rng, []string{"0xnotbech32", tc.L2.L2.Authority, "init1zzz"}), "bad-recipient"
	case 1:
		data, kind = w.hookData(to, false, ref.L2Denom(tc.Bridge, d)), "failing-hook"
	case 2:
		data, kind = w.hookData(to, true, ref.L2Denom(tc.Bridge, d)), "succeeding-hook"
	case 3:
		amt, kind = math.ZeroInt(), "zero"
		if w.rng.Bool() {
			data, kind = w.hookData(to, false, ref.L2Denom(tc.Bridge, d)), "zero-with-failing-hook"
		}
	case 4:
		data, kind = w.rng.Bytes(20), "garbage-hook"
	case 5:
		data, kind = w.hookDataMsg(to, true, ref.L2Denom(tc.Bridge, d), true), "withdrawing-hook"
	case 7:
		data, kind = w.hookDataMsg(to, false, ref.L2Denom(tc.Bridge, d), true), "withdraw-then-fail-hook"
	case 6:
		// a blocked module account that already holds bridged tokens (fees are paid into the fee collector), with hook data
		fc := authtypes.NewModuleAddress(authtypes.FeeCollectorName)
		payer := mon.Pick(w.rng, tc.L2.Users[:4])
		l2d := ref.L2Denom(tc.Bridge, d)
		if bal := tc.L2.L2.BK.GetBalance(tc.L2.L2.Ctx, payer.Addr, l2d).Amount; bal.IsPositive() {
			fee := math.NewInt(1 + int64(w.rng.Intn(int(minI64(bal.Int64(), 2_000_000)))))
			_ = tc.L2.L2.BK.SendCoinsFromAccountToModule(tc.L2.L2.Ctx.WithEventManager(sdk.NewEventManager()), payer.Addr, authtypes.FeeCollectorName, sdk.NewCoins(sdk.NewCoin(l2d, fee)))
		}
		toStr, data, kind = fc.String(), w.rng.Bytes(12), "blocked-holder-with-data"
	}
	res := tc.L1.Deposit(from, tc.Bridge, toStr, d, amt, data)
	w.run.Evaluations++
	w.logf("L1 deposit %s%s from=%s to=%s (%s) -> %s", amt, d, from.Name, short(toStr), kind, res.Class)
	if res.Class == sim.OK {
		evs := parseL1Deposits(res.Events)
		tc.PendingDeposits = append(tc.PendingDeposits, evs...)
		w.allDeposits = append(w.allDeposits, evs...)
		w.feat["deposit/"+kind]++
	}
}

func (w *c08World) opRelay() {
	tc := w.tc
	switch w.rng.Intn(8) {
	case 0: // duplicate / stale
		n := tc.L2.NextL1Seq()
		if n > 1 {
			seq := 1 + uint64(w.rng.Intn(int(n-1)))
			for _, ev := range w.allDeposits {
				if ev.Seq == seq {
					res := tc.L2.L2.DeliverGas(500_000_000, tc.RelayMsg(mon.Pick(w.rng, tc.L2.Executors), ev))
					w.run.Evaluations++
					w.logf("relay stale seq=%d -> %s", seq, res.Class)
					if res.Class == sim.OK {
						tc.record(res) // a faithful executor records whatever events appear (there must be none)
						w.feat["relay/stale"]++
					}
				}
			}
		}
	case 1: // ahead
		if len(tc.PendingDeposits) > 1 {
			ev := tc.PendingDeposits[len(tc.PendingDeposits)-1]
			res := tc.L2.L2.DeliverGas(500_000_000, tc.RelayMsg(tc.L2.Executors[0], ev))
			w.run.Evaluations++
			w.logf("relay ahead seq=%d -> %s", ev.Seq, res.Class)
			w.feat["relay/ahead"]++
		}
	default:
		res, ok := tc.RelayNext()
		if ok {
			w.run.Evaluations++
			w.logf("relay next -> %s %s (refunds recorded so far %d)", res.Class, res.ErrString(), len(tc.AllWithdrawals))
			w.run.Check("C08.faithful_relay_succeeds", res.Class == sim.OK, "c08.relay_failed", w.tr(), "in-order relay failed: %s", res.ErrString())
			if len(parseL2Withdrawals(res.Events)) > 0 {
				w.feat["refund"]++
			}
		}
	}
}

func (w *c08World) opL2Transfer() {
	l2 := w.tc.L2.L2
	from, to := mon.Pick(w.rng, w.tc.L2.Users), mon.Pick(w.rng, w.tc.L2.Users)
	bals := l2.BK.GetAllBalances(l2.Ctx, from.Addr)
	if len(bals) == 0 || from.String() == to.String() {
		return
	}
	c := bals[w.rng.Intn(len(bals))]
	amt := math.NewInt(1 + int64(w.rng.Intn(int(minI64(c.Amount.Int64(), 1<<40)))))
	res := l2.Deliver(banktypes.NewMsgSend(from.Addr, to.Addr, sdk.NewCoins(sdk.NewCoin(c.Denom, amt))))
	w.logf("L2 transfer %s -> %s", amt, res.Class)
}

func (w *c08World) opL2Withdraw() {
	tc := w.tc
	l2 := tc.L2.L2
	u := mon.Pick(w.rng, tc.L2.Users)
	d := mon.Pick(w.rng, w.denoms)
	l2d := ref.L2Denom(tc.Bridge, d)
	bal := l2.BK.GetBalance(l2.Ctx, u.Addr, l2d).Amount
	if !bal.IsPositive() {
		return
	}
	amt := math.NewInt(1 + int64(w.rng.Intn(int(minI64(bal.Int64(), 1<<40)))))
	if w.rng.Chance(10) {
		amt = bal
	}
	to := mon.Pick(w.rng, tc.L1.Users).String()
	if w.rng.Chance(15) {
		to = strings.ToUpper(to) // the same L1 account under bech32's all-upper-case spelling; L2 records the string as given
	}
	res := tc.L2Withdraw(u, to, l2d, amt)
	w.run.Evaluations++
	w.logf("L2 withdraw %s%s by=%s -> %s", amt, d, u.Name, res.Class)
	if res.Class == sim.OK {
		w.feat["withdraw"]++
	}
}

func (w *c08World) opPropose() {
	tc := w.tc
	if len(tc.Recorded) == 0 {
		return
	}
	// zero-amount refunds are not claims; a faithful executor still commits them
	o, unrep, err := tc.ProposeRecorded(ref.TreeShape(w.rng.Intn(2)), w.rng)
	w.run.Evaluations++
	if err != nil || len(unrep) > 0 {
		w.run.Fail("C08.propose", "c08.propose_failed", w.tr(), "proposal failed: %v (unrepresentable %d)", err, len(unrep))
		return
	}
	w.logf("propose output %d over %d withdrawals", o.Index, len(o.Ws))
	w.feat["propose"]++
}

func (w *c08World) opChallenge() {
	tc := w.tc
	if len(tc.Outputs) == 0 {
		return
	}
	idx := uint64(1 + w.rng.Intn(len(tc.Outputs)))
	res := tc.L1.L1.Deliver(ophosttypes.NewMsgDeleteOutput(tc.L1.Bridges[tc.Bridge].Challenger.String(), tc.Bridge, idx))
	w.run.Evaluations++
	w.logf("challenge: delete from %d -> %s %s", idx, res.Class, res.ErrString())
	if res.Class == sim.OK {
		// the withdrawals of the deleted outputs must be committed again
		for _, o := range tc.Outputs[idx-1:] {
			for _, wd := range o.Ws {
				tc.Recorded = append(tc.Recorded, L2WithdrawalEvent{Seq: wd.Seq, From: wd.From, To: wd.To, Denom: ref.L2Denom(tc.Bridge, wd.Denom), BaseDenom: wd.Denom, Amount: math.NewIntFromUint64(wd.Amount)})
			}
		}
		tc.Outputs = tc.Outputs[:idx-1]
		if len(tc.Outputs) > 0 {
			tc.L1.Bridges[tc.Bridge].LastL2 = tc.Outputs[len(tc.Outputs)-1].L2Block
		} else {
			tc.L1.Bridges[tc.Bridge].LastL2 = 0
		}
		w.feat["challenged"]++
	}
}

type claimRef struct {
	o *ProposedOutput
	i int
}

func (w *c08World) claimable() []claimRef {
	var out []claimRef
	for _, o := range w.tc.Outputs {
		for i, wd := range o.Ws {
			if wd.Amount > 0 {
				out = append(out, claimRef{o, i})
			}
		}
	}
	return out
}

func (w *c08World) opClaim() {
	cs := w.claimable()
	if len(cs) == 0 {
		return
	}
	c := mon.Pick(w.rng, cs)
	l1 := w.tc.L1.L1
	h := c.o.Ws[c.i].Leaf()
	was, _ := l1.Q.Claimed(l1.Ctx, &ophosttypes.QueryClaimedRequest{BridgeId: w.tc.Bridge, WithdrawalHash: h[:]})
	res := l1.Deliver(c.o.Claim(c.i, mon.Pick(w.rng, w.tc.L1.Users).String()))
	w.run.Evaluations++
	w.logf("claim out=%d leaf=%d seq=%d (claimed before=%v) -> %s %s", c.o.Index, c.i, c.o.Ws[c.i].Seq, was.Claimed, res.Class, res.ErrString())
	if res.Class == sim.OK {
		w.run.Check("C08.claim_exactly_once", !was.Claimed, "c08.double_claim", w.tr(), "claim succeeded for an already claimed withdrawal")
		w.feat["claim"]++
		if c.i != 0 {
			w.feat["claim_out_of_order"]++
		}
	}
}

func (w *c08World) drain() {
	tc := w.tc
	for len(tc.PendingDeposits) > 0 {
		res, _ := tc.RelayNext()
		w.run.Check("C08.faithful_relay_succeeds", res.Class == sim.OK, "c08.relay_failed", w.tr(), "drain: relay failed: %s", res.ErrString())
		if res.Class != sim.OK {
			return
		}
	}
	w.solvency("drain:relay")
	if len(tc.Recorded) > 0 {
		if _, unrep, err := tc.ProposeRecorded(ref.PadLast, w.rng); err != nil || len(unrep) > 0 {
			w.run.Fail("C08.propose", "c08.propose_failed", w.tr(), "drain: proposal failed: %v", err)
			return
		}
	}
	tc.L1.L1.NextBlock(tc.Period + time.Second)
	cs := w.claimable()
	// random order plus duplicates
	for i := len(cs) - 1; i > 0; i-- {
		j := w.rng.Intn(i + 1)
		cs[i], cs[j] = cs[j], cs[i]
	}
	l1 := tc.L1.L1
	for _, c := range append(cs, cs[:len(cs)/3]...) {
		h := c.o.Ws[c.i].Leaf()
		was, _ := l1.Q.Claimed(l1.Ctx, &ophosttypes.QueryClaimedRequest{BridgeId: tc.Bridge, WithdrawalHash: h[:]})
		res := l1.Deliver(c.o.Claim(c.i, tc.L1.Users[6].String()))
		w.run.Evaluations++
		w.logf("drain claim out=%d leaf=%d (before=%v) -> %s %s", c.o.Index, c.i, was.Claimed, res.Class, res.ErrString())
		if was.Claimed {
			w.run.Check("C08.claim_exactly_once", res.Class != sim.OK, "c08.double_claim", w.tr(), "drain: already claimed withdrawal paid again")
		} else {
			w.run.Check("C08.drain_every_claim_succeeds", res.Class == sim.OK, "c08.claim_failed", w.tr(), "drain: claim of a committed, final, unclaimed withdrawal failed: %s", res.ErrString())
		}
	}
	w.solvency("drain:claims")
	// escrow == L2 supply, holdings conserved
	for _, d := range w.denoms {
		escrow := l1.BK.GetBalance(l1.Ctx, ophosttypes.BridgeAddress(tc.Bridge), d).Amount
		supply := tc.L2.L2.BK.GetSupply(tc.L2.L2.Ctx, ref.L2Denom(tc.Bridge, d)).Amount
		w.run.Check("C08.drained_escrow_equals_supply", escrow.Equal(supply), "c08.drain_escrow", w.tr(), "after drain %s escrow %s != L2 supply %s", d, escrow, supply)
		holdings := new(big.Int).Set(supply.BigInt())
		for a, coins := range sim.AllBalances(l1.Ctx, l1.BK) {
			if a == ophosttypes.BridgeAddress(tc.Bridge).String() {
				continue
			}
			holdings.Add(holdings, coins.AmountOf(d).BigInt())
		}
		w.run.Check("C08.holdings_conserved", holdings.Cmp(w.initial[d]) == 0, "c08.holdings", w.tr(), "after drain combined holdings of %s are %s, initially %s", d, holdings, w.initial[d])
	}
}

func checkC08(run *mon.Run, rng *mon.Rand, thorough bool) {
	run.Rule = "one real L1 + one real L2 + a faithful executor model driven by a seeded single-threaded scheduler (every state is a consistent cut): L1 deposits (good / unusable recipient / failing, succeeding and garbage hooks / zero), L2 transfers and withdrawals, relays (next, stale duplicate, ahead), proposals, challenger deletions with re-proposal, block advances, claims in any order; the solvency equation is evaluated after every step from bank balances, the two sequence queries, the Claimed query and parsed events; each run ends with a complete drain. Distinct non-trivial = runs containing a refund, a challenged-and-re-proposed output, an out-of-order claim and a complete drain (by final state digest)"
	run.Assumptions = []string{"the executor relays faithfully (property premise)", "amounts < 2^62 (C04 owns the numeric edge)", "two chains share no state, so a seeded interleaving of their atomic steps covers their concurrent executions"}
	for _, c := range []string{"C08.solvency", "C08.faithful_relay_succeeds", "C08.claim_exactly_once", "C08.drain_every_claim_succeeds", "C08.drained_escrow_equals_supply", "C08.holdings_conserved"} {
		run.Declare(c, 10)
	}
	runs := pick(thorough, 12, 200)
	steps := pick(thorough, 300, 800)
	totalCuts := 0
	for r := 0; r < runs && !run.TooMany(); r++ {
		rr := rng.Split()
		w := &c08World{run: run, rng: rr, tc: newTwoChain(4*time.Second, L2EnvOpts{}), denoms: []string{"uinit", "uusdc", "uUSDC"}, feat: map[string]int{}, initial: map[string]*big.Int{}}
		l1 := w.tc.L1.L1
		for _, u := range w.tc.L1.Users {
			l1.Fund(u.Addr, sdk.NewCoin("uUSDC", math.NewInt(userFunds))) // an L1 denom differing from uusdc by case only
		}
		w.tc.L1.L1.Speculate, w.tc.L2.L2.Speculate = rr.Bool(), rr.Bool()
		if rr.Bool() {
			w.tc.L1.EnableShadow(rr.U64())
			w.tc.L2.EnableShadow(rr.U64())
		}
		if rr.Bool() {
			w.tc.BankFaults = rr.Split() // some relays meet a failing / panicking mint or transfer underneath the handler
		}
		for _, d := range w.denoms {
			w.initial[d] = new(big.Int)
			for _, coins := range sim.AllBalances(l1.Ctx, l1.BK) {
				w.initial[d].Add(w.initial[d], coins.AmountOf(d).BigInt())
			}
		}
		for s := 0; s < steps && !run.TooMany(); s++ {
			switch x := rr.Intn(100); {
			case x < 22:
				w.opL1Deposit()
			case x < 42:
				w.opRelay()
			case x < 50:
				w.opL2Transfer()
			case x < 64:
				w.opL2Withdraw()
			case x < 72:
				w.opPropose()
			case x < 76:
				w.opChallenge()
			case x < 86:
				w.tc.L1.L1.NextBlock(mon.Pick(rr, []time.Duration{time.Second, 2 * time.Second, 5 * time.Second}))
				w.tc.L2.L2.NextBlock(time.Second)
				w.logf("advance blocks")
				if rr.Chance(12) {
					// one of the chains is exported and restarted from its own genesis; the bridge goes on
					if rr.Bool() {
						w.logf("L1 restarted from its exported genesis -> imported=%v", migrateL1(w.tc.L1))
					} else {
						w.logf("L2 restarted from its exported genesis -> imported=%v", migrateL2(w.tc.L2))
					}
				}
			default:
				w.opClaim()
			}
			w.solvency("step")
		}
		w.drain()
		totalCuts += w.cuts3
		if w.feat["refund"] > 0 && w.feat["challenged"] > 0 && w.feat["claim_out_of_order"] > 0 {
			run.Distinct("run/" + sim.Digest(l1.Dump("ophost", "bank")))
		}
		for k, v := range w.feat {
			run.Counters["feature."+k] += v
		}
		if r == 0 {
			run.Sample(map[string]interface{}{"run": 0, "first_steps": w.log[:minInt(30, len(w.log))]})
		}
	}
	run.Extra["runs"] = runs
	run.Extra["steps_per_run"] = steps
	run.Extra["cuts_with_all_three_inflight_terms_nonzero"] = totalCuts
	_ = opchildtypes.ModuleName
}
