package props

import (
	"errors"
	"fmt"
	"strconv"
	"strings"

	opchildtypes "github.com/initia-labs/OPinit/x/opchild/types"

	"verifharness/mon"
	"verifharness/sim"
)

func init() { register("C13", "exploration", checkC13) }

type c13DFS struct {
	run     *mon.Run
	ops     []ValKey // operator identities 1..3 (keys chosen separately)
	visited map[string]struct{}
	nodes   int
}

// valKey(i,j): operator i with consensus key j
func (d *c13DFS) vk(i, j int) ValKey {
	k := NewValKey(j)
	k.Operator = NewValKey(i).Operator
	return k
}

func (d *c13DFS) key(w *valWorld, depth int) string {
	l2 := w.e.L2
	return sim.Digest(l2.Dump(opchildtypes.StoreKey)) + "|" + setString(l2.EngineSet()) + "|" + strconv.Itoa(depth) + "|" + fmt.Sprint(len(w.m.removedThisBlock), w.m.retentionEver0)
}

func (d *c13DFS) explore(w *valWorld, depth int) {
	if d.run.TooMany() {
		return
	}
	k := d.key(w, depth)
	if _, ok := d.visited[k]; ok {
		return
	}
	d.visited[k] = struct{}{}
	d.nodes++
	d.run.State(k[:64])
	if depth == 0 {
		// always close the block at the leaves so that the per-block clauses see the final grouping
		n := w.fork()
		n.endBlock()
		return
	}
	for i := 1; i <= 3; i++ {
		for j := 1; j <= 3; j++ {
			n := w.fork()
			res := n.addValidator(d.vk(i, j), i, j)
			if res.Class == sim.OK {
				d.explore(n, depth-1)
			}
		}
	}
	for i := 1; i <= 3; i++ {
		n := w.fork()
		res := n.removeValidator(NewValKey(i).Operator, i)
		if res.Class == sim.OK {
			d.run.Distinct(fmt.Sprintf("dfs/remove%d/after:%s", i, lastOp(w.path)))
			d.explore(n, depth-1)
		}
	}
	{
		n := w.fork()
		if n.endBlock() {
			d.explore(n, depth-1)
		}
	}
	for _, mx := range []uint32{1, 2, 3} {
		n := w.fork()
		mx := mx
		if n.setParams(func(p *opchildtypes.Params) { p.MaxValidators = mx }, fmt.Sprintf("set_max(%d)", mx)).Class == sim.OK {
			d.explore(n, depth-1)
		}
	}
	for _, rt := range []uint32{0, 1, 3} {
		n := w.fork()
		rt := rt
		if n.setParams(func(p *opchildtypes.Params) { p.HistoricalEntries = rt }, fmt.Sprintf("set_retention(%d)", rt)).Class == sim.OK {
			d.explore(n, depth-1)
		}
	}
}

func lastOp(path []string) string {
	if len(path) == 0 {
		return ""
	}
	s := path[len(path)-1]
	if len(s) > 14 {
		s = s[:14]
	}
	return s
}

func checkC13(run *mon.Run, rng *mon.Rand, thorough bool) {
	run.Rule = "memoised bounded-exhaustive DFS on copy-on-write branches over {add(operator i, key j) i,j in 1..3, remove(i), end block, set max in {1,2,3}, set retention in {0,1,3}} from three genesis sets (1, 2, 3 validators), every leaf closed by a block end; plus seeded random longer histories with up to 8 validators. The real CometBFT ValidatorSet accumulates every returned batch and is compared with state after every block. Distinct non-trivial = (removal, preceding operation) contexts in the DFS + random histories containing add-then-remove in one block, remove-then-re-add, and a key reused under another operator Plus: every genesis validator list over operators x keys x powers {-1,0,1,3} (distinct operators; all lists of <=2, sampled 3-4) accepted by ValidateGenesis must start consistent."
	run.Assumptions = []string{"engine oracle = cometbft v0.38.12 types.ValidatorSet (PB2TM + UpdateWithChangeSet)", "an engine refusal because the authority removed every validator ends the history without alarm (not among the rejection kinds the property names)", "history pruning is asserted only along histories whose retention was never 0"}
	for _, c := range []string{"C13.engine_equals_state", "C13.engine_equals_last_powers", "C13.index_bijection", "C13.bonded_within_max", "C13.block_processing_never_aborts", "C13.engine_accepts_batch",
		"C13.removed_validator_is_gone", "C13.history_within_retention_present", "C13.history_lists_bonded_set", "C13.history_pruned_to_retention"} {
		run.Declare(c, 20)
	}
	depth := pick(thorough, 5, 7)
	d := &c13DFS{run: run, visited: map[string]struct{}{}}
	for g := 1; g <= 3 && !run.TooMany(); g++ {
		var gen []ValKey
		for i := 1; i <= g; i++ {
			gen = append(gen, NewValKey(i))
		}
		w := newValWorld(run, "C13", gen, 3, 3)
		if err, pv := w.e.L2.BeginBlock(1e9); err != nil || pv != nil {
			run.Fail("C13.block_processing_never_aborts", "val.beginblock_failed", w.path, "first BeginBlocker failed: %v %v", err, pv)
			continue
		}
		w.m.mustHaveHist[w.e.L2.Ctx.BlockHeight()] = true
		d.explore(w, depth)
	}
	run.Extra["dfs_depth"] = depth
	run.Extra["dfs_nodes"] = d.nodes
	run.Sample(map[string]interface{}{"dfs_path_example": []string{"genesis validators=1 max=3 retention=3", "add(op2,key2) -> ok", "remove(op2) -> ok", "end_block", "add(op2,key2)"}})

	c13Genesis(run, rng.Split(), pick(thorough, 150, 1500))

	// ---- random longer histories ----
	hist := pick(thorough, 12, 400)
	for h := 0; h < hist && !run.TooMany(); h++ {
		c13Random(run, rng.Split(), pick(thorough, 250, 600), h == 0)
	}
	run.Extra["random_histories"] = hist
}

func c13Random(run *mon.Run, rng *mon.Rand, steps int, sample bool) {
	g := 1 + rng.Intn(3)
	var gen []ValKey
	for i := 1; i <= g; i++ {
		gen = append(gen, NewValKey(i))
	}
	w := newValWorld(run, "C13", gen, uint32(3+rng.Intn(6)), uint32(1+rng.Intn(4)))
	if err, pv := w.e.L2.BeginBlock(1e9); err != nil || pv != nil {
		run.Fail("C13.block_processing_never_aborts", "val.beginblock_failed", w.path, "first BeginBlocker failed: %v %v", err, pv)
		return
	}
	w.m.mustHaveHist[w.e.L2.Ctx.BlockHeight()] = true
	w.specBlocks, w.e.L2.Speculate = rng.Bool(), rng.Bool()
	if rng.Bool() {
		w.e.EnableShadow(rng.U64())
	}
	feat := map[string]bool{}
	addedThisBlock := map[int]bool{}
	removedEarlier := map[int]bool{}
	keyOwner := map[int]int{}
	for s := 0; s < steps && !run.TooMany(); s++ {
		switch x := rng.Intn(100); {
		case x < 35:
			i, j := 1+rng.Intn(8), 1+rng.Intn(8)
			if rng.Chance(60) {
				j = i
			}
			k := NewValKey(j)
			k.Operator = NewValKey(i).Operator
			if w.addValidator(k, i, j).Class == sim.OK {
				addedThisBlock[i] = true
				if removedEarlier[i] {
					feat["remove_then_readd"] = true
				}
				if o, ok := keyOwner[j]; ok && o != i {
					feat["key_under_other_operator"] = true
				}
				keyOwner[j] = i
			}
		case x < 60:
			i := 1 + rng.Intn(8)
			if w.removeValidator(NewValKey(i).Operator, i).Class == sim.OK {
				if addedThisBlock[i] {
					feat["add_then_remove_same_block"] = true
				}
				removedEarlier[i] = true
			}
		case x < 68:
			mx := uint32(1 + rng.Intn(8))
			w.setParams(func(p *opchildtypes.Params) { p.MaxValidators = mx }, fmt.Sprintf("set_max(%d)", mx))
		case x < 74:
			rt := uint32(rng.Intn(5))
			w.setParams(func(p *opchildtypes.Params) { p.HistoricalEntries = rt }, fmt.Sprintf("set_retention(%d)", rt))
		default:
			if !w.endBlock() {
				s = steps
			}
			addedThisBlock = map[int]bool{}
		}
		if len(w.path) > 200 {
			w.path = append([]string{"... earlier steps omitted (replay by seed)"}, w.path[len(w.path)-80:]...)
		}
	}
	if feat["add_then_remove_same_block"] && feat["remove_then_readd"] && feat["key_under_other_operator"] {
		run.Distinct("random/" + sim.Digest(w.e.L2.Dump(opchildtypes.StoreKey)))
	}
	if sample {
		run.Sample(map[string]interface{}{"random_history_tail": tail(w.path, 25)})
	}
}

// c13Genesis: "starting from any valid genesis validator set" — valid is what the module's own ValidateGenesis accepts.
// Lists over operators 1..3 x keys 1..3 x powers {-1, 0, 1, 3} (all lists of length <= 2, sampled lists of length 3 and 4)
// are offered; every accepted one with a positive-power validator is started and driven through a short script, with
// the engine / state / index comparison after the genesis batch and after every block.
func c13Genesis(run *mon.Run, rng *mon.Rand, samples int) {
	run.Declare("C13.accepted_genesis_starts_consistent", 10)
	type gv struct {
		op, key int
		power   int64
	}
	powers := []int64{-1, 0, 1, 3}
	var all []gv
	for op := 1; op <= 3; op++ {
		for key := 1; key <= 3; key++ {
			for _, p := range powers {
				all = append(all, gv{op, key, p})
			}
		}
	}
	var lists [][]gv
	for _, a := range all {
		lists = append(lists, []gv{a})
		for _, b := range all {
			lists = append(lists, []gv{a, b})
		}
	}
	for i := 0; i < samples; i++ {
		l := []gv{mon.Pick(rng, all), mon.Pick(rng, all), mon.Pick(rng, all)}
		if rng.Bool() {
			l = append(l, mon.Pick(rng, all))
		}
		lists = append(lists, l)
	}
	accepted, refused := 0, 0
	for li, l := range lists {
		if run.TooMany() {
			break
		}
		if li >= 36 && li < 36+36*36 && (li+rng.Intn(7))%4 != 0 && samples < 1000 {
			continue // quick tier: a quarter of the pairs, chosen by the seed
		}
		var gvals []opchildtypes.Validator
		positive := 0
		desc := ""
		ops := map[int]bool{}
		for _, x := range l {
			ops[x.op] = true
		}
		if len(ops) != len(l) {
			continue // validators are identified by their operator: a list naming one operator twice is not a validator set
		}
		for _, x := range l {
			k := NewValKey(x.key)
			k.Operator = NewValKey(x.op).Operator
			v := k.Validator()
			v.ConsPower = x.power
			if li%3 == 1 {
				// the genesis file spells the operator address in upper case (the address codec reads it as the same operator)
				v.OperatorAddress = strings.ToUpper(v.OperatorAddress)
			}
			gvals = append(gvals, v)
			if x.power > 0 {
				positive++
			}
			desc += fmt.Sprintf("(op%d,key%d,power %d)", x.op, x.key, x.power)
		}
		if positive == 0 {
			continue
		}
		e, err := newL2EnvGen(L2EnvOpts{MaxValidators: 4, Historical: 3}, gvals)
		run.Evaluations++
		if errors.Is(err, ErrGenesisRefused) {
			refused++
			continue
		}
		accepted++
		w := &valWorld{run: run, e: e, pfx: "C13", m: &valModel{removedThisBlock: map[string]bool{}, mustHaveHist: map[int64]bool{}, lastBonded: map[string]int64{}}}
		w.logf("genesis validators %s accepted by ValidateGenesis", desc)
		if !run.Check("C13.accepted_genesis_starts_consistent", err == nil, "val.genesis_batch_refused", w.path, "genesis %s passes ValidateGenesis, but starting from it fails: %v", desc, err) {
			continue
		}
		w.compareSets("genesis")
		if err, pv := e.L2.BeginBlock(1e9); err != nil || pv != nil {
			run.Fail("C13.block_processing_never_aborts", "val.beginblock_failed", w.path, "first BeginBlocker failed: %v %v", err, pv)
			continue
		}
		w.m.mustHaveHist[e.L2.Ctx.BlockHeight()] = true
		// a short script touching every operator and key named in the genesis
		alive := w.endBlock()
		for i := 1; alive && i <= 3; i++ {
			k := NewValKey(i)
			k.Operator = NewValKey(4).Operator
			if res := w.addValidator(k, 4, i); res.Class == sim.OK {
				alive = w.endBlock()
				if alive {
					w.removeValidator(k.Operator, 4)
					alive = w.endBlock()
				}
			}
		}
		for i := 1; alive && i <= 3; i++ {
			if w.removeValidator(NewValKey(i).Operator, i).Class == sim.OK {
				alive = w.endBlock()
			}
		}
		nonpos := len(l) - positive
		run.Distinct(fmt.Sprintf("genesis/len%d/nonpositive%d", len(l), nonpos))
	}
	run.Extra["genesis_lists_accepted"] = accepted
	run.Extra["genesis_lists_refused"] = refused
}
