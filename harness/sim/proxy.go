package sim

import (
	ophosttypes "github.com/initia-labs/OPinit/x/ophost/types"
	"context"
	"errors"
	"fmt"

	sdk "github.com/cosmos/cosmos-sdk/types"
	authkeeper "github.com/cosmos/cosmos-sdk/x/auth/keeper"
	bankkeeper "github.com/cosmos/cosmos-sdk/x/bank/keeper"
	banktypes "github.com/cosmos/cosmos-sdk/x/bank/types"
)

// FaultKind selects what an injected fault does.
type FaultKind int

const (
	FaultError FaultKind = iota
	FaultPanic
)

func (k FaultKind) String() string {
	if k == FaultError {
		return "error"
	}
	return "panic"
}

// Call is one recorded keeper call.
type Call struct {
	Layer  string // "opchild.bank", "opchild.acct", "bank.acct", "ante.acct", "hook.banksend"
	Name   string
	CanErr bool
}

func (c Call) Site() string { return c.Layer + "." + c.Name }

// ErrInjected is the error value injected faults return.
var ErrInjected = errors.New("verif: injected fault")

// FaultCtl counts calls through the keeper proxies and injects one fault.
type FaultCtl struct {
	Active bool
	Calls  []Call
	At     int // index of the call to fault; -1 = none
	Kind   FaultKind
	Fired  bool
	FiredC Call
}

func NewFaultCtl() *FaultCtl { return &FaultCtl{At: -1} }

// Arm resets the counter and arms a fault at call index at (or -1 for recording only).
func (f *FaultCtl) Arm(at int, kind FaultKind) {
	f.Active = true
	f.Calls = nil
	f.At = at
	f.Kind = kind
	f.Fired = false
}

func (f *FaultCtl) Disarm() { f.Active = false; f.At = -1 }

// hit records the call; returns an error to inject, or panics.
func (f *FaultCtl) hit(layer, name string, canErr bool) error {
	if f == nil || !f.Active {
		return nil
	}
	idx := len(f.Calls)
	c := Call{layer, name, canErr}
	f.Calls = append(f.Calls, c)
	if idx == f.At && !f.Fired {
		if f.Kind == FaultError {
			if !canErr {
				return nil // not applicable at this site
			}
			f.Fired, f.FiredC = true, c
			return ErrInjected
		}
		f.Fired, f.FiredC = true, c
		panic(fmt.Sprintf("verif: injected panic at %s", c.Site()))
	}
	return nil
}

// ---- bank keeper proxy (the interface opchild consumes) ----

type BankProxy struct {
	bankkeeper.BaseKeeper
	F     *FaultCtl
	Layer string
}

func (b BankProxy) GetAllBalances(ctx context.Context, addr sdk.AccAddress) sdk.Coins {
	_ = b.F.hit(b.Layer, "GetAllBalances", false)
	return b.BaseKeeper.GetAllBalances(ctx, addr)
}
func (b BankProxy) GetBalance(ctx context.Context, addr sdk.AccAddress, denom string) sdk.Coin {
	_ = b.F.hit(b.Layer, "GetBalance", false)
	return b.BaseKeeper.GetBalance(ctx, addr, denom)
}
func (b BankProxy) GetSupply(ctx context.Context, denom string) sdk.Coin {
	_ = b.F.hit(b.Layer, "GetSupply", false)
	return b.BaseKeeper.GetSupply(ctx, denom)
}
func (b BankProxy) SendCoins(ctx context.Context, from, to sdk.AccAddress, amt sdk.Coins) error {
	if err := b.F.hit(b.Layer, "SendCoins", true); err != nil {
		return err
	}
	return b.BaseKeeper.SendCoins(ctx, from, to, amt)
}
func (b BankProxy) SendCoinsFromModuleToModule(ctx context.Context, s, r string, amt sdk.Coins) error {
	if err := b.F.hit(b.Layer, "SendCoinsFromModuleToModule", true); err != nil {
		return err
	}
	return b.BaseKeeper.SendCoinsFromModuleToModule(ctx, s, r, amt)
}
func (b BankProxy) SendCoinsFromModuleToAccount(ctx context.Context, s string, r sdk.AccAddress, amt sdk.Coins) error {
	if err := b.F.hit(b.Layer, "SendCoinsFromModuleToAccount", true); err != nil {
		return err
	}
	return b.BaseKeeper.SendCoinsFromModuleToAccount(ctx, s, r, amt)
}
func (b BankProxy) SendCoinsFromAccountToModule(ctx context.Context, s sdk.AccAddress, r string, amt sdk.Coins) error {
	if err := b.F.hit(b.Layer, "SendCoinsFromAccountToModule", true); err != nil {
		return err
	}
	return b.BaseKeeper.SendCoinsFromAccountToModule(ctx, s, r, amt)
}
func (b BankProxy) MintCoins(ctx context.Context, m string, amt sdk.Coins) error {
	if err := b.F.hit(b.Layer, "MintCoins", true); err != nil {
		return err
	}
	return b.BaseKeeper.MintCoins(ctx, m, amt)
}
func (b BankProxy) BurnCoins(ctx context.Context, m string, amt sdk.Coins) error {
	if err := b.F.hit(b.Layer, "BurnCoins", true); err != nil {
		return err
	}
	return b.BaseKeeper.BurnCoins(ctx, m, amt)
}
func (b BankProxy) HasDenomMetaData(ctx context.Context, denom string) bool {
	_ = b.F.hit(b.Layer, "HasDenomMetaData", false)
	return b.BaseKeeper.HasDenomMetaData(ctx, denom)
}
func (b BankProxy) SetDenomMetaData(ctx context.Context, md banktypes.Metadata) {
	_ = b.F.hit(b.Layer, "SetDenomMetaData", false)
	b.BaseKeeper.SetDenomMetaData(ctx, md)
}

// ---- account keeper proxy ----

type AcctProxy struct {
	authkeeper.AccountKeeper
	F     *FaultCtl
	Layer string
}

func (a AcctProxy) NewAccountWithAddress(ctx context.Context, addr sdk.AccAddress) sdk.AccountI {
	_ = a.F.hit(a.Layer, "NewAccountWithAddress", false)
	return a.AccountKeeper.NewAccountWithAddress(ctx, addr)
}
func (a AcctProxy) NewAccount(ctx context.Context, acc sdk.AccountI) sdk.AccountI {
	_ = a.F.hit(a.Layer, "NewAccount", false)
	return a.AccountKeeper.NewAccount(ctx, acc)
}
func (a AcctProxy) GetAccount(ctx context.Context, addr sdk.AccAddress) sdk.AccountI {
	_ = a.F.hit(a.Layer, "GetAccount", false)
	return a.AccountKeeper.GetAccount(ctx, addr)
}
func (a AcctProxy) HasAccount(ctx context.Context, addr sdk.AccAddress) bool {
	_ = a.F.hit(a.Layer, "HasAccount", false)
	return a.AccountKeeper.HasAccount(ctx, addr)
}
func (a AcctProxy) SetAccount(ctx context.Context, acc sdk.AccountI) {
	_ = a.F.hit(a.Layer, "SetAccount", false)
	a.AccountKeeper.SetAccount(ctx, acc)
}
func (a AcctProxy) GetModuleAccount(ctx context.Context, name string) sdk.ModuleAccountI {
	_ = a.F.hit(a.Layer, "GetModuleAccount", false)
	return a.AccountKeeper.GetModuleAccount(ctx, name)
}
func (a AcctProxy) GetModuleAccountAndPermissions(ctx context.Context, name string) (sdk.ModuleAccountI, []string) {
	_ = a.F.hit(a.Layer, "GetModuleAccountAndPermissions", false)
	return a.AccountKeeper.GetModuleAccountAndPermissions(ctx, name)
}
func (a AcctProxy) SetModuleAccount(ctx context.Context, macc sdk.ModuleAccountI) {
	_ = a.F.hit(a.Layer, "SetModuleAccount", false)
	a.AccountKeeper.SetModuleAccount(ctx, macc)
}

// ---- bank MsgServer proxy: the target of hook messages ----

// SendHook, when set, runs before the real MsgSend handler; it may burn gas,
// return an error or panic.
type BankMsgProxy struct {
	banktypes.MsgServer
	F    *FaultCtl
	Hook *func(ctx sdk.Context, msg *banktypes.MsgSend) error
}

func (p BankMsgProxy) Send(ctx context.Context, msg *banktypes.MsgSend) (*banktypes.MsgSendResponse, error) {
	if err := p.F.hit("hook", "bank.MsgSend", true); err != nil {
		return nil, err
	}
	if p.Hook != nil && *p.Hook != nil {
		if err := (*p.Hook)(sdk.UnwrapSDKContext(ctx), msg); err != nil {
			return nil, err
		}
	}
	return p.MsgServer.Send(ctx, msg)
}

// HookedBank wraps the bank keeper handed to ophost: OnSend, when set, runs inside SendCoins before the transfer (the
// place where a bank send restriction or a transfer hook of the host chain runs, with the caller's context).
type HookedBank struct {
	ophosttypes.BankKeeper
	OnSend *func(ctx context.Context, from, to sdk.AccAddress, amt sdk.Coins)
}

func (h HookedBank) SendCoins(ctx context.Context, from, to sdk.AccAddress, amt sdk.Coins) error {
	if h.OnSend != nil && *h.OnSend != nil {
		(*h.OnSend)(ctx, from, to, amt)
	}
	return h.BankKeeper.SendCoins(ctx, from, to, amt)
}
