package sim

import (
	"context"
	"fmt"
	"sort"
	"strings"
	"time"

	abci "github.com/cometbft/cometbft/abci/types"
	tmproto "github.com/cometbft/cometbft/proto/tendermint/types"
	cmttypes "github.com/cometbft/cometbft/types"

	"cosmossdk.io/log"
	"cosmossdk.io/store"
	"cosmossdk.io/store/metrics"
	storetypes "cosmossdk.io/store/types"

	dbm "github.com/cosmos/cosmos-db"
	"github.com/cosmos/cosmos-sdk/baseapp"
	clienttx "github.com/cosmos/cosmos-sdk/client/tx"
	"github.com/cosmos/cosmos-sdk/runtime"
	sdk "github.com/cosmos/cosmos-sdk/types"
	"github.com/cosmos/cosmos-sdk/types/module"
	"github.com/cosmos/cosmos-sdk/types/tx/signing"
	"github.com/cosmos/cosmos-sdk/x/auth"
	authante "github.com/cosmos/cosmos-sdk/x/auth/ante"
	authcodec "github.com/cosmos/cosmos-sdk/x/auth/codec"
	authkeeper "github.com/cosmos/cosmos-sdk/x/auth/keeper"
	authsign "github.com/cosmos/cosmos-sdk/x/auth/signing"
	authtypes "github.com/cosmos/cosmos-sdk/x/auth/types"
	"github.com/cosmos/cosmos-sdk/x/bank"
	bankkeeper "github.com/cosmos/cosmos-sdk/x/bank/keeper"
	banktypes "github.com/cosmos/cosmos-sdk/x/bank/types"
	distributiontypes "github.com/cosmos/cosmos-sdk/x/distribution/types"
	stakingtypes "github.com/cosmos/cosmos-sdk/x/staking/types"

	oraclekeeper "github.com/skip-mev/connect/v2/x/oracle/keeper"
	oracletypes "github.com/skip-mev/connect/v2/x/oracle/types"

	opchild "github.com/initia-labs/OPinit/x/opchild"
	opchildkeeper "github.com/initia-labs/OPinit/x/opchild/keeper"
	opchildtypes "github.com/initia-labs/OPinit/x/opchild/types"
)

var L2Basics = module.NewBasicManager(
	auth.AppModuleBasic{},
	bank.AppModuleBasic{},
	opchild.AppModuleBasic{},
)

const L2ChainID = "l2-chain"

// L2 is one rollup-chain instance with the real opchild keeper.
type L2 struct {
	Ctx  sdk.Context
	Keys map[string]*storetypes.KVStoreKey
	Enc  EncodingConfig

	AK     authkeeper.AccountKeeper
	BK     bankkeeper.BaseKeeper
	OK     *oraclekeeper.Keeper
	K      *opchildkeeper.Keeper
	MS     *opchildkeeper.MsgServer
	Q      opchildtypes.QueryServer
	Router *baseapp.MsgServiceRouter

	Authority string // opchild module address
	F         *FaultCtl
	SendHook  *func(ctx sdk.Context, msg *banktypes.MsgSend) error

	// consensus engine model
	ValSet *cmttypes.ValidatorSet
	// last EndBlocker outcome
	LastUpdates []abci.ValidatorUpdate

	// T, when set, records every delivered transaction and block hook outcome (shared by branches).
	T *Transcript
	// Speculate: see L1.Speculate.
	Speculate bool
	// Shadow: see L1.Shadow.
	Shadow   func(br *L2)
	isShadow bool
	// RestartEvery > 0: the process "restarts" (Restart) before every n-th transaction.
	RestartEvery int
	delivered    int
}

// L2Opts configures a new L2.
type L2Opts struct {
	Params  *opchildtypes.Params
	CheckTx bool
}

func NewL2(opts L2Opts) *L2 {
	db := dbm.NewMemDB()
	keys := storetypes.NewKVStoreKeys(authtypes.StoreKey, banktypes.StoreKey, opchildtypes.StoreKey, oracletypes.StoreKey)
	ms := store.NewCommitMultiStore(db, log.NewNopLogger(), metrics.NewNoOpMetrics())
	for _, v := range keys {
		ms.MountStoreWithDB(v, storetypes.StoreTypeIAVL, db)
	}
	if err := ms.LoadLatestVersion(); err != nil {
		panic(err)
	}
	ctx := sdk.NewContext(ms, tmproto.Header{Height: 1, Time: GenesisTime, ChainID: L2ChainID}, opts.CheckTx, log.NewNopLogger())
	c := buildL2(ctx, keys, NewFaultCtl(), true)
	if opts.Params != nil {
		if err := c.K.SetParams(ctx, *opts.Params); err != nil {
			panic(err)
		}
	}
	return c
}

// buildL2 constructs every keeper, router and querier over the given stores; init=false writes nothing (process start
// on an existing database).
func buildL2(ctx sdk.Context, keys map[string]*storetypes.KVStoreKey, f *FaultCtl, init bool) *L2 {
	enc := MakeEncodingConfig(L2Basics)
	authority := authtypes.NewModuleAddress(opchildtypes.ModuleName).String()

	maccPerms := map[string][]string{
		authtypes.FeeCollectorName:     nil,
		distributiontypes.ModuleName:   nil,
		stakingtypes.BondedPoolName:    {authtypes.Burner, authtypes.Staking},
		stakingtypes.NotBondedPoolName: {authtypes.Burner, authtypes.Staking},
		opchildtypes.ModuleName:        {authtypes.Burner, authtypes.Minter},
		MinterModule:                   {authtypes.Minter, authtypes.Burner},
	}
	ak := authkeeper.NewAccountKeeper(
		enc.Codec, runtime.NewKVStoreService(keys[authtypes.StoreKey]), authtypes.ProtoBaseAccount, maccPerms,
		authcodec.NewBech32Codec(sdk.GetConfig().GetBech32AccountAddrPrefix()),
		sdk.GetConfig().GetBech32AccountAddrPrefix(), authority,
	)
	if init {
		if err := ak.Params.Set(ctx, authtypes.DefaultParams()); err != nil {
			panic(err)
		}
	}
	blocked := map[string]bool{}
	for acc := range maccPerms {
		blocked[authtypes.NewModuleAddress(acc).String()] = true
	}
	bk := bankkeeper.NewBaseKeeper(enc.Codec, runtime.NewKVStoreService(keys[banktypes.StoreKey]),
		AcctProxy{ak, f, "bank.acct"}, blocked, authority, ctx.Logger())
	if init {
		if err := bk.SetParams(ctx, banktypes.DefaultParams()); err != nil {
			panic(err)
		}
	}

	router := baseapp.NewMsgServiceRouter()
	router.SetInterfaceRegistry(enc.InterfaceRegistry)
	sendHook := new(func(ctx sdk.Context, msg *banktypes.MsgSend) error)
	banktypes.RegisterMsgServer(router, BankMsgProxy{bankkeeper.NewMsgServerImpl(bk), f, sendHook})

	ok := oraclekeeper.NewKeeper(runtime.NewKVStoreService(keys[oracletypes.StoreKey]), enc.Codec, nil, authtypes.NewModuleAddress(opchildtypes.ModuleName))

	anteAK := AcctProxy{ak, f, "ante.acct"}
	k := opchildkeeper.NewKeeper(
		enc.Codec, runtime.NewKVStoreService(keys[opchildtypes.StoreKey]),
		AcctProxy{ak, f, "opchild.acct"}, BankProxy{bk, f, "opchild.bank"}, &ok,
		sdk.ChainAnteDecorators(
			authante.NewSetPubKeyDecorator(anteAK),
			authante.NewValidateSigCountDecorator(anteAK),
			authante.NewSigGasConsumeDecorator(anteAK, authante.DefaultSigVerificationGasConsumer),
			authante.NewSigVerificationDecorator(anteAK, enc.TxConfig.SignModeHandler()),
			authante.NewIncrementSequenceDecorator(anteAK),
		),
		enc.TxConfig.TxDecoder(), router, authority,
		authcodec.NewBech32Codec(sdk.GetConfig().GetBech32AccountAddrPrefix()),
		authcodec.NewBech32Codec(sdk.GetConfig().GetBech32ValidatorAddrPrefix()),
		authcodec.NewBech32Codec(sdk.GetConfig().GetBech32ConsensusAddrPrefix()),
		ctx.Logger(),
	)
	msgServer := opchildkeeper.NewMsgServerImpl(k)
	opchildtypes.RegisterMsgServer(router, msgServer)

	return &L2{Ctx: ctx, Keys: keys, Enc: enc, AK: ak, BK: bk, OK: &ok, K: k, MS: msgServer, Q: opchildkeeper.NewQuerier(k),
		Router: router, Authority: authority, F: f, SendHook: sendHook}
}

// Restart replaces every keeper, router and querier by freshly constructed ones over the same stores (a process
// restart). Executor-change plans are registered by the application at start-up, so the table is carried over.
func (c *L2) Restart() {
	n := buildL2(c.Ctx, c.Keys, c.F, false)
	for h, p := range c.K.ExecutorChangePlans {
		n.K.ExecutorChangePlans[h] = p
	}
	*n.SendHook = *c.SendHook
	c.Enc, c.AK, c.BK, c.OK, c.K, c.MS, c.Q, c.Router, c.SendHook = n.Enc, n.AK, n.BK, n.OK, n.K, n.MS, n.Q, n.Router, n.SendHook
	ShadowStats.Restarts.Add(1)
}

// InitGenesis runs the module's InitGenesis and seeds the engine model with the result.
func (c *L2) InitGenesis(gs *opchildtypes.GenesisState) ([]abci.ValidatorUpdate, error) {
	ups := c.K.InitGenesis(c.Ctx, gs)
	c.LastUpdates = ups
	c.T.Add("INITGENESIS updates=%s", FormatUpdates(ups))
	tm, err := cmttypes.PB2TM.ValidatorUpdates(ups)
	if err != nil {
		return ups, err
	}
	vs, err := newValSet(tm)
	if err != nil {
		return ups, err
	}
	c.ValSet = vs
	return ups, nil
}

func newValSet(vals []*cmttypes.Validator) (vs *cmttypes.ValidatorSet, err error) {
	defer func() {
		if r := recover(); r != nil {
			err = fmt.Errorf("engine rejected genesis validators: %v", r)
		}
	}()
	for _, v := range vals {
		if v.VotingPower <= 0 {
			return nil, fmt.Errorf("engine rejected genesis validator with power %d", v.VotingPower)
		}
	}
	vs = cmttypes.NewValidatorSet(vals)
	return vs, nil
}

// Branch returns a copy-on-write fork. NOTE: the keeper's in-memory plan map is shared.
func (c *L2) Branch() *L2 {
	cp := *c
	cp.Ctx, _ = c.Ctx.CacheContext()
	cp.Ctx = cp.Ctx.WithEventManager(sdk.NewEventManager())
	if c.ValSet != nil {
		cp.ValSet = c.ValSet.Copy()
	}
	return &cp
}

// SnapshotPlans copies the keeper's in-memory plan map.
func (c *L2) SnapshotPlans() map[uint64]opchildtypes.ExecutorChangePlan {
	out := make(map[uint64]opchildtypes.ExecutorChangePlan, len(c.K.ExecutorChangePlans))
	for k, v := range c.K.ExecutorChangePlans {
		out[k] = v
	}
	return out
}

func (c *L2) RestorePlans(m map[uint64]opchildtypes.ExecutorChangePlan) {
	for k := range c.K.ExecutorChangePlans {
		delete(c.K.ExecutorChangePlans, k)
	}
	for k, v := range m {
		c.K.ExecutorChangePlans[k] = v
	}
}

func (c *L2) Fund(addr sdk.AccAddress, coins ...sdk.Coin) { fund(c.Ctx, c.BK, addr, coins...) }

func (c *L2) countShadow(r Result) {
	if c.isShadow {
		if r.Class == OK {
			ShadowStats.TxOK.Add(1)
		} else {
			ShadowStats.TxRejected.Add(1)
		}
	}
}

func (c *L2) runShadow() {
	if c.Shadow == nil {
		return
	}
	br := c.Branch()
	br.Shadow, br.Speculate, br.T, br.isShadow = nil, false, nil, true
	ShadowStats.Scripts.Add(1)
	defer func() { _ = recover() }()
	c.Shadow(br)
}

func (c *L2) maybeRestart() {
	if c.RestartEvery > 0 && !c.isShadow {
		if c.delivered++; c.delivered%c.RestartEvery == 0 {
			c.Restart()
		}
	}
}

func (c *L2) Deliver(msgs ...sdk.Msg) Result {
	c.maybeRestart()
	c.runShadow()
	if c.Speculate {
		ShadowStats.Speculated.Add(1)
		spec, _ := c.Ctx.CacheContext()
		_ = deliver(spec, c.Router, 0, msgs...)
	}
	r := deliver(c.Ctx, c.Router, 0, msgs...)
	c.countShadow(r)
	c.T.AddResult(msgs, r)
	return r
}

func (c *L2) DeliverGas(gasLimit uint64, msgs ...sdk.Msg) Result {
	c.maybeRestart()
	c.runShadow()
	if c.Speculate {
		ShadowStats.Speculated.Add(1)
		spec, _ := c.Ctx.CacheContext()
		_ = deliver(spec, c.Router, gasLimit, msgs...)
	}
	r := deliver(c.Ctx, c.Router, gasLimit, msgs...)
	c.countShadow(r)
	c.T.AddResult(msgs, r)
	return r
}

// DeliverGasPre: DeliverGas on a meter that already carries pre units of consumption.
func (c *L2) DeliverGasPre(gasLimit, pre uint64, msgs ...sdk.Msg) Result {
	c.maybeRestart()
	c.runShadow()
	r := deliverPre(c.Ctx, c.Router, gasLimit, pre, msgs...)
	c.countShadow(r)
	c.T.AddResult(msgs, r)
	return r
}

func (c *L2) Dump(only ...string) []KV { return DumpStores(c.Ctx, c.Keys, only...) }

// BlockResult is what the engine observes from one block's begin/end hooks.
type BlockResult struct {
	BeginErr   error
	EndErr     error
	Updates    []abci.ValidatorUpdate
	EngineErr  error
	PanicBegin interface{}
	PanicEnd   interface{}
}

// BeginBlock advances the header and runs the module's BeginBlocker.
func (c *L2) BeginBlock(dt time.Duration) (err error, pv interface{}) {
	h := c.Ctx.BlockHeader()
	h.Height++
	h.Time = h.Time.Add(dt)
	c.Ctx = c.Ctx.WithBlockHeader(h)
	defer func() {
		if r := recover(); r != nil {
			pv = r
		}
	}()
	cctx, write := c.Ctx.CacheContext()
	err = opchild.BeginBlocker(cctx, c.K)
	if err == nil {
		write()
	}
	return err, nil
}

// EndBlock runs the module's EndBlocker and feeds the updates to the engine model.
func (c *L2) EndBlock() (br BlockResult) {
	defer func() {
		if r := recover(); r != nil {
			br.PanicEnd = r
		}
	}()
	cctx, write := c.Ctx.CacheContext()
	ups, err := opchild.EndBlocker(cctx, c.K)
	br.Updates, br.EndErr = ups, err
	if err != nil {
		c.T.Add("ENDBLOCK h=%d error=%v", c.Ctx.BlockHeight(), err)
		return br
	}
	write()
	c.LastUpdates = ups
	br.EngineErr = c.applyToEngine(ups)
	if c.T != nil {
		c.T.Add("ENDBLOCK h=%d updates=%s engineErr=%v digest=%s", c.Ctx.BlockHeight(), FormatUpdates(ups), br.EngineErr, Digest(c.Dump()))
	}
	return br
}

func (c *L2) applyToEngine(ups []abci.ValidatorUpdate) (err error) {
	defer func() {
		if r := recover(); r != nil {
			err = fmt.Errorf("engine panic: %v", r)
		}
	}()
	// CometBFT validates updates before applying (state/execution.go validateValidatorUpdates)
	for _, u := range ups {
		if u.Power < 0 {
			return fmt.Errorf("voting power can't be negative %v", u)
		}
	}
	tm, err := cmttypes.PB2TM.ValidatorUpdates(ups)
	if err != nil {
		return err
	}
	if c.ValSet == nil {
		c.ValSet = cmttypes.NewValidatorSet(nil)
	}
	if len(tm) == 0 {
		return nil
	}
	return c.ValSet.UpdateWithChangeSet(tm)
}

// NextBlock = EndBlock of the current block + BeginBlock of the next.
func (c *L2) NextBlock(dt time.Duration) BlockResult {
	br := c.EndBlock()
	br.BeginErr, br.PanicBegin = c.BeginBlock(dt)
	return br
}

// ResetEngine forgets the engine's validator set (a chain restarted with a fresh consensus state).
func (c *L2) ResetEngine() { c.ValSet = cmttypes.NewValidatorSet(nil) }

// EngineSet returns consensus address (hex) → power of the engine's current set.
func (c *L2) EngineSet() map[string]int64 {
	out := map[string]int64{}
	if c.ValSet == nil {
		return out
	}
	for _, v := range c.ValSet.Validators {
		out[fmt.Sprintf("%X", v.Address.Bytes())] = v.VotingPower
	}
	return out
}

// SignTx builds and signs a transaction the way a user would (SIGN_MODE_DIRECT).
func (c *L2) SignTx(signer Account, accNum, seq uint64, chainID string, gasLimit uint64, msgs ...sdk.Msg) ([]byte, error) {
	txConfig := c.Enc.TxConfig
	b := txConfig.NewTxBuilder()
	if err := b.SetMsgs(msgs...); err != nil {
		return nil, err
	}
	b.SetGasLimit(gasLimit)
	mode, err := authsign.APISignModeToInternal(txConfig.SignModeHandler().DefaultMode())
	if err != nil {
		return nil, err
	}
	sig := signing.SignatureV2{PubKey: signer.Pub, Data: &signing.SingleSignatureData{SignMode: mode}, Sequence: seq}
	if err := b.SetSignatures(sig); err != nil {
		return nil, err
	}
	sd := authsign.SignerData{Address: signer.Addr.String(), ChainID: chainID, AccountNumber: accNum, Sequence: seq, PubKey: signer.Pub}
	sig, err = clienttx.SignWithPrivKey(context.TODO(), mode, sd, b, signer.Priv, txConfig, seq)
	if err != nil {
		return nil, err
	}
	if err := b.SetSignatures(sig); err != nil {
		return nil, err
	}
	return txConfig.TxEncoder()(b.GetTx())
}

// AccNumSeq returns the account number and sequence of addr (0,0 if absent).
func (c *L2) AccNumSeq(addr sdk.AccAddress) (uint64, uint64, bool) {
	acc := c.AK.GetAccount(c.Ctx, addr)
	if acc == nil {
		return 0, 0, false
	}
	return acc.GetAccountNumber(), acc.GetSequence(), true
}

// SortedKeys is a tiny helper.
func SortedKeys[V any](m map[string]V) []string {
	ks := make([]string, 0, len(m))
	for k := range m {
		ks = append(ks, k)
	}
	sort.Strings(ks)
	return ks
}

// FundModule mints fresh coins into a module account (module accounts are blocked for plain sends).
func (c *L2) FundModule(module string, coins ...sdk.Coin) {
	cs := sdk.NewCoins(coins...)
	ctx := c.Ctx.WithEventManager(sdk.NewEventManager())
	if err := c.BK.MintCoins(ctx, MinterModule, cs); err != nil {
		panic(err)
	}
	if err := c.BK.SendCoinsFromModuleToModule(ctx, MinterModule, module, cs); err != nil {
		panic(err)
	}
}

// FormatUpdates renders a validator-update list in order, by key bytes and power.
func FormatUpdates(ups []abci.ValidatorUpdate) string {
	var sb strings.Builder
	sb.WriteString("[")
	for _, u := range ups {
		bz, _ := u.PubKey.Marshal()
		fmt.Fprintf(&sb, "%X:%d ", bz, u.Power)
	}
	sb.WriteString("]")
	return sb.String()
}
