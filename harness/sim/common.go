// Package sim builds chain instances around the *real* ophost / opchild keepers,
// wired the same way the repository's own common_test.go files wire them, and
// delivers messages with baseapp's transaction semantics (branch, run, write on
// success, recover panics).
package sim

import (
	"bytes"
	"crypto/sha256"
	"encoding/binary"
	"encoding/hex"
	"fmt"
	"sort"
	"strings"
	"sync/atomic"

	abci "github.com/cometbft/cometbft/abci/types"

	storetypes "cosmossdk.io/store/types"
	"cosmossdk.io/x/tx/signing"

	"github.com/cosmos/cosmos-sdk/client"
	"github.com/cosmos/cosmos-sdk/codec"
	codecaddress "github.com/cosmos/cosmos-sdk/codec/address"
	codectypes "github.com/cosmos/cosmos-sdk/codec/types"
	"github.com/cosmos/cosmos-sdk/crypto/keys/secp256k1"
	cryptotypes "github.com/cosmos/cosmos-sdk/crypto/types"
	"github.com/cosmos/cosmos-sdk/std"
	sdk "github.com/cosmos/cosmos-sdk/types"
	"github.com/cosmos/cosmos-sdk/types/module"
	authtx "github.com/cosmos/cosmos-sdk/x/auth/tx"
	"github.com/cosmos/gogoproto/proto"
)

// EncodingConfig mirrors the repository tests' EncodingConfig.
type EncodingConfig struct {
	InterfaceRegistry codectypes.InterfaceRegistry
	Codec             codec.Codec
	TxConfig          client.TxConfig
	Amino             *codec.LegacyAmino
}

func MakeEncodingConfig(basics module.BasicManager) EncodingConfig {
	interfaceRegistry, err := codectypes.NewInterfaceRegistryWithOptions(codectypes.InterfaceRegistryOptions{
		ProtoFiles: proto.HybridResolver,
		SigningOptions: signing.Options{
			AddressCodec:          codecaddress.NewBech32Codec(sdk.GetConfig().GetBech32AccountAddrPrefix()),
			ValidatorAddressCodec: codecaddress.NewBech32Codec(sdk.GetConfig().GetBech32ValidatorAddrPrefix()),
		},
	})
	if err != nil {
		panic(err)
	}
	appCodec := codec.NewProtoCodec(interfaceRegistry)
	legacyAmino := codec.NewLegacyAmino()
	txConfig := authtx.NewTxConfig(appCodec, authtx.DefaultSignModes)

	std.RegisterInterfaces(interfaceRegistry)
	std.RegisterLegacyAminoCodec(legacyAmino)
	basics.RegisterLegacyAminoCodec(legacyAmino)
	basics.RegisterInterfaces(interfaceRegistry)

	return EncodingConfig{
		InterfaceRegistry: interfaceRegistry,
		Codec:             appCodec,
		TxConfig:          txConfig,
		Amino:             legacyAmino,
	}
}

// Account is a deterministic key pair.
type Account struct {
	Name string
	Priv cryptotypes.PrivKey
	Pub  cryptotypes.PubKey
	Addr sdk.AccAddress
}

func (a Account) String() string { return a.Addr.String() }
func (a Account) Val() string    { return sdk.ValAddress(a.Addr).String() }

// NewAccount derives a key from a label; the same label always gives the same key.
func NewAccount(label string) Account {
	priv := secp256k1.GenPrivKeyFromSecret([]byte("verif/" + label))
	pub := priv.PubKey()
	return Account{Name: label, Priv: priv, Pub: pub, Addr: sdk.AccAddress(pub.Address())}
}

// Class is the observable outcome class of a delivered message.
type Class int

const (
	OK Class = iota
	ERR
	PANIC
)

func (c Class) String() string {
	switch c {
	case OK:
		return "ok"
	case ERR:
		return "error"
	default:
		return "panic"
	}
}

// Result is what a client observes from one delivered message / transaction.
type Result struct {
	Class    Class
	Err      error
	PanicVal interface{}
	Stack    string
	Resps    []proto.Message // one per message, only on success
	Events   []abci.Event    // only on success
	GasUsed  uint64
	GasLog   []GasEvent
}

func (r Result) Resp() proto.Message {
	if len(r.Resps) == 0 {
		return nil
	}
	return r.Resps[0]
}

func (r Result) ErrString() string {
	switch r.Class {
	case OK:
		return ""
	case ERR:
		return r.Err.Error()
	default:
		return fmt.Sprintf("panic: %v", r.PanicVal)
	}
}

// EventsOfType returns the events of the given type.
func (r Result) EventsOfType(t string) []abci.Event {
	var out []abci.Event
	for _, e := range r.Events {
		if e.Type == t {
			out = append(out, e)
		}
	}
	return out
}

// Attr returns the value of the first attribute with that key.
func Attr(e abci.Event, key string) (string, bool) {
	for _, a := range e.Attributes {
		if a.Key == key {
			return a.Value, true
		}
	}
	return "", false
}

// GasEvent is one ConsumeGas call on the outer meter.
type GasEvent struct {
	Amount uint64
	Desc   string
}

// RecordingGasMeter wraps a gas meter and logs every ConsumeGas.
type RecordingGasMeter struct {
	storetypes.GasMeter
	Log []GasEvent
}

func NewRecordingGasMeter(limit uint64) *RecordingGasMeter {
	if limit == 0 {
		return &RecordingGasMeter{GasMeter: storetypes.NewInfiniteGasMeter()}
	}
	return &RecordingGasMeter{GasMeter: storetypes.NewGasMeter(limit)}
}

func (g *RecordingGasMeter) ConsumeGas(amount storetypes.Gas, descriptor string) {
	g.Log = append(g.Log, GasEvent{amount, descriptor})
	g.GasMeter.ConsumeGas(amount, descriptor)
}

// KV is one raw store entry.
type KV struct {
	Store string
	Key   []byte
	Value []byte
}

// DumpStores iterates all given stores and returns all entries in canonical order.
func DumpStores(ctx sdk.Context, keys map[string]*storetypes.KVStoreKey, only ...string) []KV {
	names := make([]string, 0, len(keys))
	for n := range keys {
		if len(only) > 0 {
			found := false
			for _, o := range only {
				if o == n {
					found = true
				}
			}
			if !found {
				continue
			}
		}
		names = append(names, n)
	}
	sort.Strings(names)
	var out []KV
	for _, n := range names {
		st := ctx.KVStore(keys[n])
		it := st.Iterator(nil, nil)
		for ; it.Valid(); it.Next() {
			out = append(out, KV{n, append([]byte(nil), it.Key()...), append([]byte(nil), it.Value()...)})
		}
		it.Close()
	}
	return out
}

// Digest hashes a dump.
func Digest(kvs []KV) string {
	h := sha256.New()
	var l [8]byte
	for _, kv := range kvs {
		binary.BigEndian.PutUint64(l[:], uint64(len(kv.Store)))
		h.Write(l[:])
		h.Write([]byte(kv.Store))
		binary.BigEndian.PutUint64(l[:], uint64(len(kv.Key)))
		h.Write(l[:])
		h.Write(kv.Key)
		binary.BigEndian.PutUint64(l[:], uint64(len(kv.Value)))
		h.Write(l[:])
		h.Write(kv.Value)
	}
	return hex.EncodeToString(h.Sum(nil))
}

// DiffKV returns the entries that differ between two dumps (by store+key).
type KVDiff struct {
	Store  string
	Key    []byte
	Before []byte // nil = absent
	After  []byte // nil = absent
}

func DiffKV(a, b []KV) []KVDiff {
	var out []KVDiff
	i, j := 0, 0
	cmp := func(x, y KV) int {
		if x.Store != y.Store {
			if x.Store < y.Store {
				return -1
			}
			return 1
		}
		return bytes.Compare(x.Key, y.Key)
	}
	for i < len(a) || j < len(b) {
		switch {
		case i >= len(a):
			out = append(out, KVDiff{b[j].Store, b[j].Key, nil, b[j].Value})
			j++
		case j >= len(b):
			out = append(out, KVDiff{a[i].Store, a[i].Key, a[i].Value, nil})
			i++
		default:
			c := cmp(a[i], b[j])
			if c == 0 {
				if !bytes.Equal(a[i].Value, b[j].Value) {
					out = append(out, KVDiff{a[i].Store, a[i].Key, a[i].Value, b[j].Value})
				}
				i++
				j++
			} else if c < 0 {
				out = append(out, KVDiff{a[i].Store, a[i].Key, a[i].Value, nil})
				i++
			} else {
				out = append(out, KVDiff{b[j].Store, b[j].Key, nil, b[j].Value})
				j++
			}
		}
	}
	return out
}

// Transcript records everything a node's operator could observe, in order.
type Transcript struct{ Lines []string }

func (t *Transcript) Add(format string, a ...interface{}) {
	if t != nil {
		t.Lines = append(t.Lines, fmt.Sprintf(format, a...))
	}
}

func (t *Transcript) AddResult(msgs []sdk.Msg, r Result) {
	if t == nil {
		return
	}
	var sb strings.Builder
	sb.WriteString("TX[")
	for _, m := range msgs {
		sb.WriteString(sdk.MsgTypeURL(m) + " ")
	}
	fmt.Fprintf(&sb, "] -> %s err=%q gas=%d resp=[", r.Class, r.ErrString(), r.GasUsed)
	for _, p := range r.Resps {
		if p != nil {
			sb.WriteString(p.String() + ";")
		}
	}
	sb.WriteString("] events=[")
	for _, e := range r.Events {
		sb.WriteString(e.Type + "{")
		for _, a := range e.Attributes {
			sb.WriteString(a.Key + "=" + a.Value + ",")
		}
		sb.WriteString("}")
	}
	sb.WriteString("]")
	t.Lines = append(t.Lines, sb.String())
}

// ShadowStats counts what ran on discarded branches (scripts, and transactions by outcome) in this process.
var ShadowStats struct {
	Scripts, TxOK, TxRejected, Speculated, Restarts, Migrations atomic.Int64
}
