package sim

import (
	"context"
	"fmt"
	"runtime/debug"
	"sort"
	"time"

	abci "github.com/cometbft/cometbft/abci/types"
	tmproto "github.com/cometbft/cometbft/proto/tendermint/types"

	"cosmossdk.io/log"
	"cosmossdk.io/store"
	"cosmossdk.io/store/metrics"
	"cosmossdk.io/store/prefix"
	storetypes "cosmossdk.io/store/types"

	dbm "github.com/cosmos/cosmos-db"
	"github.com/cosmos/cosmos-sdk/baseapp"
	"github.com/cosmos/cosmos-sdk/runtime"
	sdk "github.com/cosmos/cosmos-sdk/types"
	"github.com/cosmos/cosmos-sdk/types/module"
	"github.com/cosmos/cosmos-sdk/x/auth"
	authcodec "github.com/cosmos/cosmos-sdk/x/auth/codec"
	authkeeper "github.com/cosmos/cosmos-sdk/x/auth/keeper"
	authtypes "github.com/cosmos/cosmos-sdk/x/auth/types"
	"github.com/cosmos/cosmos-sdk/x/bank"
	bankkeeper "github.com/cosmos/cosmos-sdk/x/bank/keeper"
	banktypes "github.com/cosmos/cosmos-sdk/x/bank/types"
	distributiontypes "github.com/cosmos/cosmos-sdk/x/distribution/types"
	govtypes "github.com/cosmos/cosmos-sdk/x/gov/types"
	stakingtypes "github.com/cosmos/cosmos-sdk/x/staking/types"
	"github.com/cosmos/gogoproto/proto"

	ophost "github.com/initia-labs/OPinit/x/ophost"
	ophostkeeper "github.com/initia-labs/OPinit/x/ophost/keeper"
	ophosttypes "github.com/initia-labs/OPinit/x/ophost/types"
	ophosthook "github.com/initia-labs/OPinit/x/ophost/types/hook"
)

var L1Basics = module.NewBasicManager(
	auth.AppModuleBasic{},
	bank.AppModuleBasic{},
	ophost.AppModuleBasic{},
)

const (
	PermStoreKey = "verifperm"
	ChanStoreKey = "verifchan"
	MinterModule = authtypes.Minter
)

// L1 is one host-chain instance with the real ophost keeper.
type L1 struct {
	Ctx  sdk.Context
	Keys map[string]*storetypes.KVStoreKey
	Enc  EncodingConfig

	AK     authkeeper.AccountKeeper
	BK     bankkeeper.BaseKeeper
	K      *ophostkeeper.Keeper
	Q      ophostkeeper.Querier
	Router *baseapp.MsgServiceRouter
	Gov    string

	Perm *PermKeeper
	Chan *ChanKeeper

	// T, when set, records every delivered transaction (shared by branches).
	T *Transcript
	// Speculate: run every transaction first on a throw-away branch (as CheckTx / simulation does on a real
	// node) before delivering it; process-local caches that do not roll back with the store become visible.
	Speculate bool
	// Shadow, when set, is called before every transaction with a throw-away branch of the current state; whatever
	// it executes there (other transactions, block boundaries, queries) is discarded and must leave no trace.
	Shadow   func(br *L1)
	isShadow bool
	// RestartEvery > 0: the process "restarts" (Restart) before every n-th transaction.
	RestartEvery int
	delivered    int
	opts         L1Opts
}

// PermKeeper is an in-store stand-in for initia's ibcperm keeper.
type PermKeeper struct {
	key *storetypes.KVStoreKey
	// FailIsTaken: while set, every "does this channel already have an admin" lookup fails (the permission store is
	// unavailable); IsTakenFailures counts the lookups that were failed.
	FailIsTaken     bool
	IsTakenFailures int
}

func pcKey(portID, channelID string) []byte {
	return []byte(fmt.Sprintf("%d/%s/%s", len(portID), portID, channelID))
}

func (p *PermKeeper) IsTaken(ctx context.Context, portID, channelID string) (bool, error) {
	if p.FailIsTaken {
		p.IsTakenFailures++
		return false, fmt.Errorf("injected fault: permission store unavailable")
	}
	return sdk.UnwrapSDKContext(ctx).KVStore(p.key).Has(pcKey(portID, channelID)), nil
}

func (p *PermKeeper) SetAdmin(ctx context.Context, portID, channelID string, admin sdk.AccAddress) error {
	sdk.UnwrapSDKContext(ctx).KVStore(p.key).Set(pcKey(portID, channelID), admin)
	return nil
}

func (p *PermKeeper) HasAdminPermission(ctx context.Context, portID, channelID string, admin sdk.AccAddress) (bool, error) {
	bz := sdk.UnwrapSDKContext(ctx).KVStore(p.key).Get(pcKey(portID, channelID))
	return bz != nil && sdk.AccAddress(bz).Equals(admin), nil
}

// Admin returns the current admin (nil if none).
func (p *PermKeeper) Admin(ctx sdk.Context, portID, channelID string) sdk.AccAddress {
	return ctx.KVStore(p.key).Get(pcKey(portID, channelID))
}

// All returns the whole perm table as key → admin.
func (p *PermKeeper) All(ctx sdk.Context) map[string]string {
	out := map[string]string{}
	it := ctx.KVStore(p.key).Iterator(nil, nil)
	defer it.Close()
	for ; it.Valid(); it.Next() {
		out[string(it.Key())] = sdk.AccAddress(it.Value()).String()
	}
	return out
}

// ChanKeeper is an in-store stand-in for the IBC channel keeper.
type ChanKeeper struct{ key *storetypes.KVStoreKey }

func (c *ChanKeeper) GetNextSequenceSend(ctx sdk.Context, portID, channelID string) (uint64, bool) {
	bz := ctx.KVStore(c.key).Get(pcKey(portID, channelID))
	if bz == nil {
		return 0, false
	}
	return sdk.BigEndianToUint64(bz), true
}

func (c *ChanKeeper) Set(ctx sdk.Context, portID, channelID string, seq uint64) {
	ctx.KVStore(c.key).Set(pcKey(portID, channelID), sdk.Uint64ToBigEndian(seq))
}

// communityPool really moves the fee through bank into the distribution module account.
type communityPool struct{ bk bankkeeper.BaseKeeper }

func (c communityPool) FundCommunityPool(ctx context.Context, amount sdk.Coins, sender sdk.AccAddress) error {
	return c.bk.SendCoinsFromAccountToModule(ctx, sender, distributiontypes.ModuleName, amount)
}

var GenesisTime = time.Date(2020, time.April, 22, 12, 0, 0, 0, time.UTC)

// L1Opts configures a new L1.
type L1Opts struct {
	StartTime time.Time
	// WrapBank, if set, wraps the bank keeper handed to ophost.
	WrapBank func(ophosttypes.BankKeeper) ophosttypes.BankKeeper
	// NoHook replaces the real hook.BridgeHook by a no-op.
	NoHook bool
}

func NewL1(opts L1Opts) *L1 {
	db := dbm.NewMemDB()
	keys := storetypes.NewKVStoreKeys(authtypes.StoreKey, banktypes.StoreKey, ophosttypes.StoreKey, PermStoreKey, ChanStoreKey)
	ms := store.NewCommitMultiStore(db, log.NewNopLogger(), metrics.NewNoOpMetrics())
	for _, v := range keys {
		ms.MountStoreWithDB(v, storetypes.StoreTypeIAVL, db)
	}
	if err := ms.LoadLatestVersion(); err != nil {
		panic(err)
	}
	start := opts.StartTime
	if start.IsZero() {
		start = GenesisTime
	}
	ctx := sdk.NewContext(ms, tmproto.Header{Height: 1, Time: start, ChainID: "l1-chain"}, false, log.NewNopLogger())
	return buildL1(ctx, keys, opts, true)
}

// buildL1 constructs every keeper, router and querier over the given stores. With init=false nothing is written:
// this is what a node does when its process starts on an existing database.
func buildL1(ctx sdk.Context, keys map[string]*storetypes.KVStoreKey, opts L1Opts, init bool) *L1 {
	enc := MakeEncodingConfig(L1Basics)
	gov := authtypes.NewModuleAddress(govtypes.ModuleName).String()

	maccPerms := map[string][]string{
		authtypes.FeeCollectorName:     nil,
		distributiontypes.ModuleName:   nil,
		stakingtypes.BondedPoolName:    {authtypes.Burner, authtypes.Staking},
		stakingtypes.NotBondedPoolName: {authtypes.Burner, authtypes.Staking},
		ophosttypes.ModuleName:         {authtypes.Burner, authtypes.Minter},
		MinterModule:                   {authtypes.Minter, authtypes.Burner},
	}
	ak := authkeeper.NewAccountKeeper(
		enc.Codec, runtime.NewKVStoreService(keys[authtypes.StoreKey]), authtypes.ProtoBaseAccount, maccPerms,
		authcodec.NewBech32Codec(sdk.GetConfig().GetBech32AccountAddrPrefix()),
		sdk.GetConfig().GetBech32AccountAddrPrefix(), gov,
	)
	if init {
		if err := ak.Params.Set(ctx, authtypes.DefaultParams()); err != nil {
			panic(err)
		}
		// the module accounts every chain has from its first block (auth, distribution and staking create theirs in
		// InitGenesis): without them a plain transfer to such an address would leave a plain account there, which no
		// real L1 can experience. The ophost module's own account is created on first use, as on a real chain.
		for _, name := range []string{authtypes.FeeCollectorName, distributiontypes.ModuleName, stakingtypes.BondedPoolName, stakingtypes.NotBondedPoolName} {
			ak.GetModuleAccount(ctx, name)
		}
	}
	blocked := map[string]bool{}
	for acc := range maccPerms {
		blocked[authtypes.NewModuleAddress(acc).String()] = true
	}
	bk := bankkeeper.NewBaseKeeper(enc.Codec, runtime.NewKVStoreService(keys[banktypes.StoreKey]), ak, blocked, gov, ctx.Logger())
	if init {
		if err := bk.SetParams(ctx, banktypes.DefaultParams()); err != nil {
			panic(err)
		}
	}

	router := baseapp.NewMsgServiceRouter()
	router.SetInterfaceRegistry(enc.InterfaceRegistry)
	banktypes.RegisterMsgServer(router, bankkeeper.NewMsgServerImpl(bk))

	perm := &PermKeeper{key: keys[PermStoreKey]}
	ch := &ChanKeeper{keys[ChanStoreKey]}
	var hook ophosttypes.BridgeHook
	if opts.NoHook {
		hook = ophosttypes.NewBridgeHooks()
	} else {
		// wired the way an application wires it: through the module's hook combinator
		// (followed by another, always succeeding hook, as other modules register theirs)
		hook = ophosttypes.NewBridgeHooks(ophosthook.NewBridgeHook(ch, perm, ak.AddressCodec()), ophosttypes.NewBridgeHooks())
	}

	var obk ophosttypes.BankKeeper = bk
	if opts.WrapBank != nil {
		obk = opts.WrapBank(bk)
	}
	k := ophostkeeper.NewKeeper(enc.Codec, runtime.NewKVStoreService(keys[ophosttypes.StoreKey]), ak, obk, communityPool{bk}, hook, gov)
	if init {
		if err := k.SetParams(ctx, ophosttypes.DefaultParams()); err != nil {
			panic(err)
		}
	}
	ophosttypes.RegisterMsgServer(router, ophostkeeper.NewMsgServerImpl(*k))

	return &L1{Ctx: ctx, Keys: keys, Enc: enc, AK: ak, BK: bk, K: k, Q: ophostkeeper.NewQuerier(*k), Router: router, Gov: gov, Perm: perm, Chan: ch, opts: opts}
}

// Restart replaces every keeper, router, hook and querier by freshly constructed ones over the same stores: what a
// node's process restart does. Only what is in the stores survives.
func (c *L1) Restart() {
	n := buildL1(c.Ctx, c.Keys, c.opts, false)
	n.Perm.FailIsTaken, n.Perm.IsTakenFailures = c.Perm.FailIsTaken, c.Perm.IsTakenFailures // an injected fault is the environment's, not the process's
	c.Enc, c.AK, c.BK, c.K, c.Q, c.Router, c.Perm, c.Chan = n.Enc, n.AK, n.BK, n.K, n.Q, n.Router, n.Perm, n.Chan
	ShadowStats.Restarts.Add(1)
}

// Branch returns a copy-on-write fork of the chain; writes to it never reach the parent.
func (c *L1) Branch() *L1 {
	cp := *c
	cp.Ctx, _ = c.Ctx.CacheContext()
	cp.Ctx = cp.Ctx.WithEventManager(sdk.NewEventManager())
	return &cp
}

// NextBlock advances height by one and time by dt (dt >= 0).
func (c *L1) NextBlock(dt time.Duration) {
	h := c.Ctx.BlockHeader()
	h.Height++
	h.Time = h.Time.Add(dt)
	c.Ctx = c.Ctx.WithBlockHeader(h)
}

// SetTime sets the block time (must not decrease) and bumps the height.
func (c *L1) SetTime(t time.Time) {
	h := c.Ctx.BlockHeader()
	if t.Before(h.Time) {
		panic("time going backwards")
	}
	h.Height++
	h.Time = t
	c.Ctx = c.Ctx.WithBlockHeader(h)
}

func (c *L1) Time() time.Time { return c.Ctx.BlockTime() }

// Fund mints fresh coins to addr (outside of any bridge accounting).
func (c *L1) Fund(addr sdk.AccAddress, coins ...sdk.Coin) {
	fund(c.Ctx, c.BK, addr, coins...)
}

func fund(ctx sdk.Context, bk bankkeeper.BaseKeeper, addr sdk.AccAddress, coins ...sdk.Coin) {
	cs := sdk.NewCoins(coins...)
	ctx = ctx.WithEventManager(sdk.NewEventManager())
	if err := bk.MintCoins(ctx, MinterModule, cs); err != nil {
		panic(err)
	}
	if err := bk.SendCoinsFromModuleToAccount(ctx, MinterModule, addr, cs); err != nil {
		panic(err)
	}
}

// Deliver runs one transaction made of msgs with baseapp semantics.
func (c *L1) countShadow(r Result) {
	if c.isShadow {
		if r.Class == OK {
			ShadowStats.TxOK.Add(1)
		} else {
			ShadowStats.TxRejected.Add(1)
		}
	}
}

func (c *L1) runShadow() {
	if c.Shadow == nil {
		return
	}
	br := c.Branch()
	br.Shadow, br.Speculate, br.T, br.isShadow = nil, false, nil, true
	ShadowStats.Scripts.Add(1)
	defer func() { _ = recover() }()
	c.Shadow(br)
}

func (c *L1) Deliver(msgs ...sdk.Msg) Result {
	if c.RestartEvery > 0 && !c.isShadow {
		if c.delivered++; c.delivered%c.RestartEvery == 0 {
			c.Restart()
		}
	}
	c.runShadow()
	if c.Speculate {
		ShadowStats.Speculated.Add(1)
		spec, _ := c.Ctx.CacheContext()
		_ = deliver(spec, c.Router, 0, msgs...)
	}
	r := deliver(c.Ctx, c.Router, 0, msgs...)
	c.countShadow(r)
	c.T.AddResult(msgs, r)
	return r
}

// DeliverInspect delivers one message like Deliver and, when the handler fails, also reports what the handler had
// written to the ophost and bank stores of its own (then discarded) branch before it failed: the keys whose value differs
// from the parent state. "Fails with no effect" is about the handler, not about the rollback the harness performs.
func (c *L1) DeliverInspect(msg sdk.Msg) (res Result, leftovers []string) {
	c.runShadow()
	cacheCtx, write := c.Ctx.CacheContext()
	gm := NewRecordingGasMeter(0)
	cacheCtx = cacheCtx.WithEventManager(sdk.NewEventManager()).WithGasMeter(gm)
	func() {
		defer func() {
			if r := recover(); r != nil {
				res = Result{Class: PANIC, PanicVal: r, Stack: string(debug.Stack()), GasUsed: gm.GasConsumed(), GasLog: gm.Log}
			}
		}()
		h := c.Router.Handler(msg)
		if h == nil {
			res = Result{Class: ERR, Err: fmt.Errorf("unroutable message %s", sdk.MsgTypeURL(msg))}
			return
		}
		r, err := h(cacheCtx, msg)
		if err != nil {
			res = Result{Class: ERR, Err: err, GasUsed: gm.GasConsumed(), GasLog: gm.Log}
			return
		}
		var resps []proto.Message
		for _, any := range r.MsgResponses {
			if pm, ok := any.GetCachedValue().(proto.Message); ok {
				resps = append(resps, pm)
			}
		}
		res = Result{Class: OK, Resps: resps, Events: r.Events, GasUsed: gm.GasConsumed(), GasLog: gm.Log}
	}()
	if res.Class == OK {
		write()
	} else {
		stores := []string{ophosttypes.StoreKey, banktypes.StoreKey}
		parent := map[string]string{}
		for _, kv := range DumpStores(c.Ctx, c.Keys, stores...) {
			parent[kv.Store+"/"+string(kv.Key)] = string(kv.Value)
		}
		for _, kv := range DumpStores(cacheCtx, c.Keys, stores...) {
			k := kv.Store + "/" + string(kv.Key)
			if v, ok := parent[k]; !ok || v != string(kv.Value) {
				leftovers = append(leftovers, fmt.Sprintf("%s/%x written", kv.Store, kv.Key))
			}
			delete(parent, k)
		}
		for k := range parent {
			leftovers = append(leftovers, fmt.Sprintf("%x deleted", k))
		}
		sort.Strings(leftovers)
	}
	c.countShadow(res)
	c.T.AddResult([]sdk.Msg{msg}, res)
	return res, leftovers
}

func deliver(ctx sdk.Context, router *baseapp.MsgServiceRouter, gasLimit uint64, msgs ...sdk.Msg) (res Result) {
	return deliverPre(ctx, router, gasLimit, 0, msgs...)
}

// deliverPre: as deliver, with pre units of gas already consumed on the transaction's meter (earlier messages of the
// same transaction, ante handlers).
func deliverPre(ctx sdk.Context, router *baseapp.MsgServiceRouter, gasLimit, pre uint64, msgs ...sdk.Msg) (res Result) {
	cacheCtx, write := ctx.CacheContext()
	gm := NewRecordingGasMeter(gasLimit)
	if pre > 0 {
		gm.ConsumeGas(pre, "earlier messages of the same transaction")
	}
	cacheCtx = cacheCtx.WithEventManager(sdk.NewEventManager()).WithGasMeter(gm)
	defer func() {
		if r := recover(); r != nil {
			res = Result{Class: PANIC, PanicVal: r, Stack: string(debug.Stack()), GasUsed: gm.GasConsumed(), GasLog: gm.Log}
		}
	}()
	var resps []proto.Message
	var events []abci.Event
	for _, msg := range msgs {
		h := router.Handler(msg)
		if h == nil {
			return Result{Class: ERR, Err: fmt.Errorf("unroutable message %s", sdk.MsgTypeURL(msg)), GasLog: gm.Log}
		}
		r, err := h(cacheCtx, msg)
		if err != nil {
			return Result{Class: ERR, Err: err, GasUsed: gm.GasConsumed(), GasLog: gm.Log}
		}
		for _, any := range r.MsgResponses {
			if pm, ok := any.GetCachedValue().(proto.Message); ok {
				resps = append(resps, pm)
			} else {
				resps = append(resps, nil)
			}
		}
		events = append(events, r.Events...)
	}
	write()
	return Result{Class: OK, Resps: resps, Events: events, GasUsed: gm.GasConsumed(), GasLog: gm.Log}
}

// Dump returns all raw store entries.
func (c *L1) Dump(only ...string) []KV { return DumpStores(c.Ctx, c.Keys, only...) }

// OphostPrefixStore is a helper for attributing raw keys.
func (c *L1) OphostPrefixStore(pfx []byte) storetypes.KVStore {
	return prefix.NewStore(c.Ctx.KVStore(c.Keys[ophosttypes.StoreKey]), pfx)
}

// AllBalances returns address → coins for every account with a balance.
func AllBalances(ctx sdk.Context, bk bankkeeper.BaseKeeper) map[string]sdk.Coins {
	out := map[string]sdk.Coins{}
	bk.IterateAllBalances(ctx, func(addr sdk.AccAddress, coin sdk.Coin) bool {
		k := addr.String()
		out[k] = out[k].Add(coin)
		return false
	})
	return out
}

// Supply returns the total supply.
func Supply(ctx sdk.Context, bk bankkeeper.BaseKeeper) sdk.Coins {
	var out sdk.Coins
	bk.IterateTotalSupply(ctx, func(c sdk.Coin) bool {
		out = out.Add(c)
		return false
	})
	return out
}
