// Package mon is the monitor kit: clause counters with non-vacuity minima,
// three-valued verdicts, evidence and replay files, known-findings matching.
package mon

import (
	"bufio"
	"encoding/json"
	"fmt"
	"os"
	"path/filepath"
	"sort"
	"strconv"
	"strings"
	"time"
)

// Rand is a small splittable PRNG (splitmix64); deterministic across platforms.
type Rand struct{ s uint64 }

func NewRand(seed uint64) *Rand { return &Rand{s: seed*0x9E3779B97F4A7C15 + 0x1234567} }

func (r *Rand) U64() uint64 {
	r.s += 0x9E3779B97F4A7C15
	z := r.s
	z = (z ^ (z >> 30)) * 0xBF58476D1CE4E5B9
	z = (z ^ (z >> 27)) * 0x94D049BB133111EB
	return z ^ (z >> 31)
}
func (r *Rand) Intn(n int) int {
	if n <= 0 {
		return 0
	}
	return int(r.U64() % uint64(n))
}
func (r *Rand) Bool() bool        { return r.U64()&1 == 1 }
func (r *Rand) Chance(p int) bool { return r.Intn(100) < p }
func (r *Rand) Split() *Rand      { return NewRand(r.U64()) }
func (r *Rand) Bytes(n int) []byte {
	b := make([]byte, n)
	for i := range b {
		b[i] = byte(r.U64())
	}
	return b
}
func Pick[T any](r *Rand, xs []T) T { return xs[r.Intn(len(xs))] }

// Clause tracks non-vacuous evaluations of one clause of a property.
type Clause struct {
	Name        string
	NonVacuous  int
	MinRequired int
}

// Violation is one refuting observation.
type Violation struct {
	Clause    string      `json:"clause"`
	Signature string      `json:"signature"`
	Detail    string      `json:"detail"`
	Trace     interface{} `json:"trace,omitempty"`
}

// Run is the state of one check run.
type Run struct {
	Property string
	Tier     string
	Seed     int64
	Level    string
	Start    time.Time

	clauses map[string]*Clause
	order   []string

	Evaluations int
	distinct    map[string]struct{}
	states      map[string]struct{}
	Samples     []interface{}
	MaxSamples  int
	Rule        string
	Extra       map[string]interface{}
	Assumptions []string
	Counters    map[string]int

	Violations []Violation
	knownHit   map[string]int
	known      map[string]string // signature → text
	MaxViol    int
	Exhaustive bool
	Notes      []string
}

func NewRun(property, tier string, seed int64, level string) *Run {
	r := &Run{Property: property, Tier: tier, Seed: seed, Level: level, Start: time.Now(),
		clauses: map[string]*Clause{}, distinct: map[string]struct{}{}, states: map[string]struct{}{},
		Extra: map[string]interface{}{}, Counters: map[string]int{}, knownHit: map[string]int{}, MaxSamples: 6, MaxViol: 5}
	r.known = LoadKnown(property)
	if v, err := strconv.Atoi(os.Getenv("VERIF_MAXVIOL")); err == nil && v > 0 {
		r.MaxViol = v // exploration aid: keep going after the first few violations
	}
	return r
}

// Declare registers a clause with its non-vacuity minimum.
func (r *Run) Declare(name string, min int) {
	if _, ok := r.clauses[name]; !ok {
		r.clauses[name] = &Clause{Name: name, MinRequired: min}
		r.order = append(r.order, name)
	}
}

// Hit counts a non-vacuous evaluation of a clause.
func (r *Run) Hit(name string) {
	c, ok := r.clauses[name]
	if !ok {
		r.Declare(name, 1)
		c = r.clauses[name]
	}
	c.NonVacuous++
}

// Check counts a non-vacuous evaluation and records a violation if !ok.
func (r *Run) Check(name string, ok bool, sig string, trace interface{}, format string, args ...interface{}) bool {
	r.Hit(name)
	if !ok {
		r.Fail(name, sig, trace, format, args...)
	}
	return ok
}

// Fail records a violation (or a known finding if the signature is listed).
func (r *Run) Fail(clause, sig string, trace interface{}, format string, args ...interface{}) {
	if sig == "" {
		sig = clause
	}
	if _, ok := r.known[sig]; ok {
		r.knownHit[sig]++
		return
	}
	if len(r.Violations) < 5000 {
		r.Violations = append(r.Violations, Violation{Clause: clause, Signature: sig, Detail: fmt.Sprintf(format, args...), Trace: trace})
	}
}

func (r *Run) Failed() bool   { return len(r.Violations) > 0 }
func (r *Run) TooMany() bool  { return len(r.Violations) >= r.MaxViol }
func (r *Run) Count(k string) { r.Counters[k]++ }
func (r *Run) CountN(k string, n int) {
	r.Counters[k] += n
}

// Distinct records a distinct non-trivial case key.
func (r *Run) Distinct(key string) { r.distinct[key] = struct{}{} }
func (r *Run) NDistinct() int      { return len(r.distinct) }

// State records a state digest seen.
func (r *Run) State(d string) { r.states[d] = struct{}{} }

// Sample keeps up to MaxSamples sample cases.
func (r *Run) Sample(s interface{}) {
	if len(r.Samples) < r.MaxSamples {
		r.Samples = append(r.Samples, s)
	}
}

func verifDir() string {
	if d := os.Getenv("VERIF_DIR"); d != "" {
		return d
	}
	return "/verif"
}

// LoadKnown reads KNOWN_FINDINGS.txt: lines "finding: property=<id> signature=<sig> text".
func LoadKnown(property string) map[string]string {
	out := map[string]string{}
	f, err := os.Open(filepath.Join(verifDir(), "KNOWN_FINDINGS.txt"))
	if err != nil {
		return out
	}
	defer f.Close()
	sc := bufio.NewScanner(f)
	for sc.Scan() {
		line := strings.TrimSpace(sc.Text())
		if !strings.HasPrefix(line, "finding:") {
			continue
		}
		rest := strings.TrimSpace(strings.TrimPrefix(line, "finding:"))
		fields := strings.Fields(rest)
		var prop, sig string
		n := 0
		for _, f := range fields {
			if strings.HasPrefix(f, "property=") {
				prop = strings.TrimPrefix(f, "property=")
				n++
			} else if strings.HasPrefix(f, "signature=") {
				sig = strings.TrimPrefix(f, "signature=")
				n++
			} else {
				break
			}
		}
		if prop != property || sig == "" {
			continue
		}
		out[sig] = strings.Join(fields[n:], " ")
	}
	return out
}

// Finish writes evidence, prints verdict lines and returns the exit code.
func (r *Run) Finish() int {
	wall := time.Since(r.Start).Seconds()
	verdict := "held"
	var under []string
	for _, n := range r.order {
		c := r.clauses[n]
		if c.NonVacuous < c.MinRequired {
			under = append(under, fmt.Sprintf("%s(%d<%d)", n, c.NonVacuous, c.MinRequired))
		}
	}
	if len(r.Violations) > 0 {
		verdict = "violated"
	} else if len(under) > 0 {
		verdict = "inconclusive"
	}

	clauses := map[string]interface{}{}
	for _, n := range r.order {
		c := r.clauses[n]
		clauses[n] = map[string]int{"nonvacuous": c.NonVacuous, "min_required": c.MinRequired}
	}
	cov := map[string]interface{}{
		"evaluations":            r.Evaluations,
		"distinct_nontrivial":    len(r.distinct),
		"rule":                   r.Rule,
		"samples":                r.Samples,
		"clauses":                clauses,
		"distinct_states":        len(r.states),
		"counters":               r.Counters,
		"known_findings_matched": r.knownHit,
		"verdict":                verdict,
		"exhaustive":             r.Exhaustive,
	}
	if len(r.Notes) > 0 {
		cov["notes"] = r.Notes
	}
	for k, v := range r.Extra {
		cov[k] = v
	}
	if len(r.Samples) == 0 && len(r.Violations) > 0 {
		// a run that stopped at a violation before its sampling point: the violating case is the case it explored
		v := r.Violations[0]
		cov["samples"] = []interface{}{map[string]interface{}{"violating_case": v.Signature, "clause": v.Clause, "detail": v.Detail}}
	}
	if cov["samples"] == nil {
		cov["samples"] = []interface{}{}
	}
	ev := map[string]interface{}{
		"property_id": r.Property,
		"tier":        r.Tier,
		"seed":        r.Seed,
		"level":       r.Level,
		"coverage":    cov,
		"assumptions": r.Assumptions,
		"wall_s":      wall,
		"violations":  len(r.Violations),
	}
	dir := filepath.Join(verifDir(), "evidence")
	_ = os.MkdirAll(dir, 0o755)
	bz, err := json.MarshalIndent(ev, "", " ")
	if err == nil {
		tmp := filepath.Join(dir, "."+r.Property+".json.tmp")
		if err = os.WriteFile(tmp, bz, 0o644); err == nil {
			err = os.Rename(tmp, filepath.Join(dir, r.Property+".json"))
		}
	}
	if err != nil {
		fmt.Printf("INCONCLUSIVE property=%s cannot write evidence: %v\n", r.Property, err)
		return 2
	}

	sigs := make([]string, 0, len(r.knownHit))
	for s := range r.knownHit {
		sigs = append(sigs, s)
	}
	sort.Strings(sigs)
	for _, s := range sigs {
		fmt.Printf("KNOWN-FINDING: property=%s %s [signature=%s, matched %d times]\n", r.Property, r.known[s], s, r.knownHit[s])
	}

	fmt.Printf("SUMMARY property=%s tier=%s seed=%d evaluations=%d distinct_nontrivial=%d states=%d wall=%.1fs verdict=%s\n",
		r.Property, r.Tier, r.Seed, r.Evaluations, len(r.distinct), len(r.states), wall, verdict)
	for _, n := range r.order {
		c := r.clauses[n]
		fmt.Printf("  clause %-44s nonvacuous=%d (min %d)\n", n, c.NonVacuous, c.MinRequired)
	}

	switch verdict {
	case "violated":
		rdir := filepath.Join(verifDir(), "replays")
		_ = os.MkdirAll(rdir, 0o755)
		for i, v := range r.Violations {
			if i >= r.MaxViol {
				break
			}
			path := filepath.Join(rdir, fmt.Sprintf("%s-%d-%d.json", r.Property, r.Seed, i))
			rb, _ := json.MarshalIndent(map[string]interface{}{
				"property": r.Property, "tier": r.Tier, "seed": r.Seed, "clause": v.Clause,
				"signature": v.Signature, "detail": v.Detail, "trace": v.Trace,
			}, "", " ")
			_ = os.WriteFile(path, rb, 0o644)
			fmt.Printf("  detail: clause=%s signature=%s %s\n", v.Clause, v.Signature, v.Detail)
			fmt.Printf("VIOLATION property=%s replay=%s\n", r.Property, path)
		}
		return 1
	case "inconclusive":
		fmt.Printf("INCONCLUSIVE property=%s under-exercised clauses: %s\n", r.Property, strings.Join(under, ", "))
		return 2
	}
	return 0
}
