// Package ref is an independent implementation of the documented commitment
// and identifier formats. It shares no code with golang.org/x/crypto/sha3 or
// with x/ophost/types: Keccak-f[1600] is written out here, and the formats are
// re-derived from the documentation (big-endian integers, SHA3-256 digests of
// the variable-length strings, double hash of the leaf, sorted pair for nodes).
package ref

import (
	"bytes"
	"crypto/sha256"
	"encoding/hex"
	"math/bits"
)

var rc = [24]uint64{
	0x0000000000000001, 0x0000000000008082, 0x800000000000808A, 0x8000000080008000,
	0x000000000000808B, 0x0000000080000001, 0x8000000080008081, 0x8000000000008009,
	0x000000000000008A, 0x0000000000000088, 0x0000000080008009, 0x000000008000000A,
	0x000000008000808B, 0x800000000000008B, 0x8000000000008089, 0x8000000000008003,
	0x8000000000008002, 0x8000000000000080, 0x000000000000800A, 0x800000008000000A,
	0x8000000080008081, 0x8000000000008080, 0x0000000080000001, 0x8000000080008008,
}

var rotc = [24]int{1, 3, 6, 10, 15, 21, 28, 36, 45, 55, 2, 14, 27, 41, 56, 8, 25, 43, 62, 18, 39, 61, 20, 44}
var piln = [24]int{10, 7, 11, 17, 18, 3, 5, 16, 8, 21, 24, 4, 15, 23, 19, 13, 12, 2, 20, 14, 22, 9, 6, 1}

func keccakF(st *[25]uint64) {
	var bc [5]uint64
	for round := 0; round < 24; round++ {
		for i := 0; i < 5; i++ {
			bc[i] = st[i] ^ st[i+5] ^ st[i+10] ^ st[i+15] ^ st[i+20]
		}
		for i := 0; i < 5; i++ {
			t := bc[(i+4)%5] ^ bits.RotateLeft64(bc[(i+1)%5], 1)
			for j := 0; j < 25; j += 5 {
				st[j+i] ^= t
			}
		}
		t := st[1]
		for i := 0; i < 24; i++ {
			j := piln[i]
			b := st[j]
			st[j] = bits.RotateLeft64(t, rotc[i])
			t = b
		}
		for j := 0; j < 25; j += 5 {
			for i := 0; i < 5; i++ {
				bc[i] = st[j+i]
			}
			for i := 0; i < 5; i++ {
				st[j+i] ^= (^bc[(i+1)%5]) & bc[(i+2)%5]
			}
		}
		st[0] ^= rc[round]
	}
}

// Sha3_256 is FIPS-202 SHA3-256 (rate 136, domain suffix 0x06).
func Sha3_256(data []byte) [32]byte {
	const rate = 136
	var st [25]uint64
	absorb := func(block []byte) {
		for i := 0; i < rate/8; i++ {
			var w uint64
			for b := 0; b < 8; b++ {
				w |= uint64(block[i*8+b]) << (8 * uint(b))
			}
			st[i] ^= w
		}
		keccakF(&st)
	}
	for len(data) >= rate {
		absorb(data[:rate])
		data = data[rate:]
	}
	var last [rate]byte
	copy(last[:], data)
	last[len(data)] ^= 0x06
	last[rate-1] ^= 0x80
	absorb(last[:])
	var out [32]byte
	for i := 0; i < 4; i++ {
		for b := 0; b < 8; b++ {
			out[i*8+b] = byte(st[i] >> (8 * uint(b)))
		}
	}
	return out
}

func be64(v uint64) []byte {
	return []byte{byte(v >> 56), byte(v >> 48), byte(v >> 40), byte(v >> 32), byte(v >> 24), byte(v >> 16), byte(v >> 8), byte(v)}
}

// Leaf is the withdrawal leaf: sha3(sha3(be64(bridge) ‖ be64(seq) ‖ sha3(sender) ‖ sha3(receiver) ‖ sha3(denom) ‖ be64(amount))).
func Leaf(bridgeID, seq uint64, sender, receiver, denom string, amount uint64) [32]byte {
	var buf []byte
	buf = append(buf, be64(bridgeID)...)
	buf = append(buf, be64(seq)...)
	s := Sha3_256([]byte(sender))
	r := Sha3_256([]byte(receiver))
	d := Sha3_256([]byte(denom))
	buf = append(buf, s[:]...)
	buf = append(buf, r[:]...)
	buf = append(buf, d[:]...)
	buf = append(buf, be64(amount)...)
	h := Sha3_256(buf)
	return Sha3_256(h[:])
}

// Node is the order-independent inner node: sha3(min(a,b) ‖ max(a,b)).
func Node(a, b []byte) [32]byte {
	buf := make([]byte, 0, len(a)+len(b))
	if bytes.Compare(a, b) < 0 {
		buf = append(append(buf, a...), b...)
	} else {
		buf = append(append(buf, b...), a...)
	}
	return Sha3_256(buf)
}

// Root folds a proof from a leaf.
func Root(leaf [32]byte, proof [][]byte) [32]byte {
	cur := leaf
	for _, p := range proof {
		cur = Node(cur[:], p)
	}
	return cur
}

// OutputRoot = sha3(version ‖ storageRoot[32] ‖ lastBlockHash[32]).
func OutputRoot(version byte, storageRoot, lastBlockHash []byte) [32]byte {
	buf := make([]byte, 0, 65)
	buf = append(buf, version)
	buf = append(buf, storageRoot[:32]...)
	buf = append(buf, lastBlockHash[:32]...)
	return Sha3_256(buf)
}

// L2Denom = "l2/" + hex(sha3(be64(bridge) ‖ l1Denom)).
func L2Denom(bridgeID uint64, l1Denom string) string {
	h := Sha3_256(append(be64(bridgeID), []byte(l1Denom)...))
	return "l2/" + hex.EncodeToString(h[:])
}

// BridgeAddress is the ADR-028 derived module account: sha256(sha256("module") ‖ "ophost" ‖ 0x00 ‖ be64(bridge)).
func BridgeAddress(bridgeID uint64) []byte {
	th := sha256.Sum256([]byte("module"))
	h := sha256.New()
	h.Write(th[:])
	h.Write([]byte("ophost"))
	h.Write([]byte{0})
	h.Write(be64(bridgeID))
	return h.Sum(nil)
}

// ModuleAddress is the plain module account address: sha256(name)[:20].
func ModuleAddress(name string) []byte {
	h := sha256.Sum256([]byte(name))
	return h[:20]
}

// TreeShape selects how odd levels are completed.
type TreeShape int

const (
	// PadLast pads the leaf list with copies of the last leaf up to a power of two (opinit-bots).
	PadLast TreeShape = iota
	// Promote carries an unpaired node up unchanged.
	Promote
)

// Tree is a sorted-pair Merkle tree over leaves in sequence order.
type Tree struct {
	Shape  TreeShape
	Leaves [][32]byte
	levels [][][32]byte
}

func BuildTree(leaves [][32]byte, shape TreeShape) *Tree {
	t := &Tree{Shape: shape, Leaves: append([][32]byte(nil), leaves...)}
	if len(leaves) == 0 {
		return t
	}
	lvl := append([][32]byte(nil), leaves...)
	if shape == PadLast {
		n := 1
		for n < len(lvl) {
			n <<= 1
		}
		for len(lvl) < n {
			lvl = append(lvl, lvl[len(lvl)-1])
		}
	}
	t.levels = append(t.levels, lvl)
	for len(lvl) > 1 {
		var next [][32]byte
		for i := 0; i < len(lvl); i += 2 {
			if i+1 < len(lvl) {
				next = append(next, Node(lvl[i][:], lvl[i+1][:]))
			} else {
				next = append(next, lvl[i])
			}
		}
		t.levels = append(t.levels, next)
		lvl = next
	}
	return t
}

func (t *Tree) Root() [32]byte {
	if len(t.levels) == 0 {
		return [32]byte{}
	}
	return t.levels[len(t.levels)-1][0]
}

// Proof returns the sibling path of leaf i; each element is separately allocated.
func (t *Tree) Proof(i int) [][]byte {
	var out [][]byte
	idx := i
	for l := 0; l < len(t.levels)-1; l++ {
		lvl := t.levels[l]
		sib := idx ^ 1
		if sib < len(lvl) {
			s := lvl[sib]
			out = append(out, append([]byte(nil), s[:]...))
		}
		idx >>= 1
	}
	return out
}

// InnerNodes returns all inner node values (levels above the leaves).
func (t *Tree) InnerNodes() [][32]byte {
	var out [][32]byte
	for l := 1; l < len(t.levels); l++ {
		out = append(out, t.levels[l]...)
	}
	return out
}
