// vcheck <property> [--tier quick|thorough] [--seed N] [--replay file]
package main

import (
	"encoding/json"
	"fmt"
	"os"
	"runtime/debug"
	"strconv"
	_ "time/tzdata" // the out-of-process replica of C18 runs in another time zone, whatever the host has installed

	"verifharness/mon"
	"verifharness/props"
	"verifharness/sim"
)

func main() {
	if len(os.Args) < 2 {
		fmt.Println("usage: vcheck <property> [--tier quick|thorough] [--seed N] [--replay file]")
		os.Exit(2)
	}
	id := os.Args[1]
	if id == "__c18replica__" {
		// child process of the C18 check: run one history, write its transcript, exit
		if len(os.Args) != 8 {
			os.Exit(3)
		}
		seed, _ := strconv.ParseUint(os.Args[3], 10, 64)
		steps, _ := strconv.Atoi(os.Args[4])
		mode, _ := strconv.Atoi(os.Args[5])
		anchor, _ := strconv.ParseInt(os.Args[6], 10, 64)
		if err := props.C18Child(os.Args[2], seed, steps, mode, anchor, os.Args[7]); err != nil {
			fmt.Println(err)
			os.Exit(3)
		}
		os.Exit(0)
	}
	tier := os.Getenv("VERIF_TIER")
	if tier == "" {
		tier = "quick"
	}
	seed := int64(1)
	if s := os.Getenv("VERIF_SEED"); s != "" {
		if v, err := strconv.ParseInt(s, 10, 64); err == nil {
			seed = v
		}
	}
	for i := 2; i < len(os.Args); i++ {
		switch os.Args[i] {
		case "--tier":
			i++
			tier = os.Args[i]
		case "--seed":
			i++
			v, err := strconv.ParseInt(os.Args[i], 10, 64)
			if err != nil {
				fmt.Println("bad seed")
				os.Exit(2)
			}
			seed = v
		case "--replay":
			i++
			bz, err := os.ReadFile(os.Args[i])
			if err != nil {
				fmt.Printf("INCONCLUSIVE property=%s cannot read replay: %v\n", id, err)
				os.Exit(2)
			}
			var rp struct {
				Property string `json:"property"`
				Tier     string `json:"tier"`
				Seed     int64  `json:"seed"`
			}
			if err := json.Unmarshal(bz, &rp); err != nil {
				fmt.Printf("INCONCLUSIVE property=%s bad replay: %v\n", id, err)
				os.Exit(2)
			}
			// workloads are a deterministic function of (tier, seed): replay = re-run
			tier, seed = rp.Tier, rp.Seed
		}
	}
	if tier != "quick" && tier != "thorough" {
		tier = "quick"
	}
	e, ok := props.Registry[id]
	if !ok {
		fmt.Printf("INCONCLUSIVE property=%s no such check\n", id)
		os.Exit(2)
	}
	run := mon.NewRun(id, tier, seed, e.Level)
	code := func() (code int) {
		defer func() {
			if r := recover(); r != nil {
				// a panic of the harness itself is never a verdict about OPinit
				fmt.Printf("INCONCLUSIVE property=%s harness panic: %v\n%s\n", id, r, debug.Stack())
				code = 2
			}
		}()
		e.Fn(run, mon.NewRand(uint64(seed)), tier == "thorough")
		if n := sim.ShadowStats.Scripts.Load() + sim.ShadowStats.Speculated.Load() + sim.ShadowStats.Restarts.Load() + sim.ShadowStats.Migrations.Load(); n > 0 {
			run.Extra["discarded_branch_activity"] = map[string]int64{"shadow_scripts": sim.ShadowStats.Scripts.Load(), "shadow_tx_accepted": sim.ShadowStats.TxOK.Load(),
				"shadow_tx_rejected": sim.ShadowStats.TxRejected.Load(), "transactions_first_run_speculatively": sim.ShadowStats.Speculated.Load(), "process_restarts": sim.ShadowStats.Restarts.Load(), "genesis_round_trips_mid_history": sim.ShadowStats.Migrations.Load()}
		}
		return run.Finish()
	}()
	os.Exit(code)
}
